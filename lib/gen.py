"""Generators: the `#[kani::proof]` wrappers + native table (from lib/registry.py) and the
conversion harnesses of C04/C05, which are derived on every run from the `newtype!` blocks and
`impl_from_*!` / `impl_try_from_*!` invocations found in /repo/src."""
import glob
import os
import re

STUBS = (
    "    #[kani::stub(std::alloc::alloc, crate::stubs::no_alloc)]\n"
    "    #[kani::stub(std::alloc::alloc_zeroed, crate::stubs::no_alloc_zeroed)]\n"
    "    #[kani::stub(std::alloc::realloc, crate::stubs::no_realloc)]\n"
)

PRIMS = {"u8": 8, "u16": 16, "u32": 32, "u64": 64, "u128": 128, "usize": 64,
         "i8": 8, "i16": 16, "i32": 32, "i64": 64, "i128": 128, "isize": 64}

_cache = {}


def scan_repo(repo):
    """Returns (newtypes {name: (repr, max)}, impls [(kind, from, to)])."""
    key = repo
    files = sorted(glob.glob(os.path.join(repo, "src", "*.rs")))
    sig = tuple((f, os.path.getmtime(f), os.path.getsize(f)) for f in files)
    if key in _cache and _cache[key][0] == sig:
        return _cache[key][1]
    newtypes = {}
    impls = []
    for f in files:
        if f.endswith("newtype_macros.rs"):
            continue
        with open(f) as fh:
            src = fh.read()
        src = re.sub(r"//[^\n]*", "", src)
        for m in re.finditer(r"newtype!\s*\{(.*?)\n\}", src, flags=re.S):
            body = m.group(1)
            n = re.search(r"name\s*=\s*(\w+)", body)
            r = re.search(r"repr\s*=\s*(\w+)", body)
            mx = re.search(r"max\s*=\s*(\d+)", body)
            if n and r and mx:
                newtypes[n.group(1)] = (r.group(1), int(mx.group(1)))
        for m in re.finditer(r"\b(impl_(?:try_)?from_\w+)!\s*\(\s*([\w:]+)\s*,\s*([\w:]+)\s*\)", src):
            kind, a, b = m.groups()
            a = a.split("::")[-1]
            b = b.split("::")[-1]
            impls.append((kind, a, b))
        # hand-written conversion impls next to the macro invocations
        for m in re.finditer(r"\bimpl\s+(?:core::convert::|std::convert::)?(Try)?From<\s*([\w:]+)\s*>\s+for\s+([\w:]+)", src):
            tr, a, b = m.groups()
            a = a.split("::")[-1]
            b = b.split("::")[-1]
            impls.append(("hand_try" if tr else "hand_from", a, b))
    # classify every impl by its shape (fallible or not, source and target kind) rather than by
    # the macro's name, so that a renamed or newly introduced macro is still covered
    fixed = []
    for kind, a, b in impls:
        if True:
            t = "try_" if ("try_" in kind or kind == "hand_try") else ""
            if a in newtypes and b in newtypes:
                kind = "impl_%sfrom_newtype_to_newtype" % t
            elif a in PRIMS and b in newtypes:
                kind = "impl_%sfrom_primitive_to_newtype" % t
            elif a in newtypes and b in PRIMS and not t:
                kind = "impl_from_newtype_to_primitive"
            else:
                continue
        fixed.append((kind, a, b))
    impls = fixed
    res = (newtypes, impls)
    _cache[key] = (sig, res)
    return res


def any_nt(name, newtypes):
    rep, mx = newtypes[name]
    return "unsafe { %s::new_unchecked(nd.%s_le(%d)) }" % (name, rep, mx)


def conv_items(repo):
    """[(fn_name, description, rust_source, expect)] for every conversion impl and newtype."""
    newtypes, impls = scan_repo(repo)
    items = []
    seen = set()
    for kind, a, b in impls:
        fn = ("conv_%s_%s_%s" % (kind.replace("impl_", ""), a, b)).lower()
        if fn in seen:
            continue
        seen.add(fn)
        if kind == "impl_from_newtype_to_newtype" and a in newtypes and b in newtypes:
            bm = newtypes[b][1]
            src = """pub fn %(fn)s<N: Nd>(nd: &mut N) {
    let a: %(a)s = %(any)s;
    let r: %(b)s = <%(b)s as From<%(a)s>>::from(a);
    check!((r.get() as i128) <= %(bm)d, "C04 C05 From<%(a)s> for %(b)s yields an in-range value");
    check!(r.get() as i128 == a.get() as i128, "C05 From<%(a)s> for %(b)s preserves the value");
    witness!(nd, a.get() as i128 == %(am)d, "source maximum");
}
""" % dict(fn=fn, a=a, b=b, bm=bm, am=newtypes[a][1], any=any_nt(a, newtypes))
            desc = "From<%s> for %s over every %s value" % (a, b, a)
        elif kind == "impl_from_newtype_to_primitive" and a in newtypes and b in PRIMS:
            cast = "u128" if b == "u128" else "i128"
            src = """pub fn %(fn)s<N: Nd>(nd: &mut N) {
    let a: %(a)s = %(any)s;
    let r: %(b)s = <%(b)s as From<%(a)s>>::from(a);
    check!(r as %(cast)s == a.get() as %(cast)s, "C05 From<%(a)s> for %(b)s yields the same mathematical value");
    witness!(nd, a.get() as i128 == %(am)d, "source maximum");
}
""" % dict(fn=fn, a=a, b=b, cast=cast, am=newtypes[a][1], any=any_nt(a, newtypes))
            desc = "From<%s> for %s over every %s value" % (a, b, a)
        elif kind == "impl_from_primitive_to_newtype" and a in PRIMS and b in newtypes:
            bm = newtypes[b][1]
            src = """pub fn %(fn)s<N: Nd>(nd: &mut N) {
    let x: %(a)s = nd.%(a)s();
    let r: %(b)s = <%(b)s as From<%(a)s>>::from(x);
    check!((r.get() as i128) <= %(bm)d, "C04 C05 From<%(a)s> for %(b)s yields an in-range value");
    check!(r.get() as i128 == x as i128, "C05 From<%(a)s> for %(b)s preserves the value");
    witness!(nd, true, "converted");
}
""" % dict(fn=fn, a=a, b=b, bm=bm)
            desc = "From<%s> for %s over every %s value (all 2^%d)" % (a, b, a, PRIMS[a])
        elif kind == "impl_try_from_newtype_to_newtype" and a in newtypes and b in newtypes:
            bm = newtypes[b][1]
            src = """pub fn %(fn)s<N: Nd>(nd: &mut N) {
    let a: %(a)s = %(any)s;
    let r = <%(b)s as core::convert::TryFrom<%(a)s>>::try_from(a);
    let in_range = (a.get() as i128) <= %(bm)d;
    match r {
        Ok(v) => {
            check!((v.get() as i128) <= %(bm)d, "C04 C05 TryFrom<%(a)s> for %(b)s yields an in-range value");
            check!(in_range, "C04 C05 TryFrom<%(a)s> for %(b)s accepts only in-range input");
            check!(v.get() as i128 == a.get() as i128, "C05 TryFrom<%(a)s> for %(b)s preserves the value");
            witness!(nd, true, "accepted");
        }
        Err(_) => {
            check!(!in_range, "C04 C05 TryFrom<%(a)s> for %(b)s rejects only out-of-range input");
            witness!(nd, true, "rejected");
        }
    }
}
""" % dict(fn=fn, a=a, b=b, bm=bm, any=any_nt(a, newtypes))
            desc = "TryFrom<%s> for %s over every %s value" % (a, b, a)
        elif kind == "impl_try_from_primitive_to_newtype" and a in PRIMS and b in newtypes:
            bm = newtypes[b][1]
            if a == "u128":
                inr = "x <= %d" % bm
                eq = "v.get() as u128 == x"
            else:
                inr = "(x as i128) >= 0 && (x as i128) <= %d" % bm
                eq = "v.get() as i128 == x as i128"
            src = """pub fn %(fn)s<N: Nd>(nd: &mut N) {
    let x: %(a)s = nd.%(a)s();
    let r = <%(b)s as core::convert::TryFrom<%(a)s>>::try_from(x);
    let in_range = %(inr)s;
    match r {
        Ok(v) => {
            check!((v.get() as i128) <= %(bm)d, "C04 C05 TryFrom<%(a)s> for %(b)s yields an in-range value");
            check!(in_range, "C04 C05 TryFrom<%(a)s> for %(b)s accepts only in-range input");
            check!(%(eq)s, "C05 TryFrom<%(a)s> for %(b)s preserves the value");
            witness!(nd, true, "accepted");
        }
        Err(_) => {
            check!(!in_range, "C04 C05 TryFrom<%(a)s> for %(b)s rejects only out-of-range input");
            witness!(nd, true, "rejected");
        }
    }
}
""" % dict(fn=fn, a=a, b=b, bm=bm, inr=inr, eq=eq)
            desc = "TryFrom<%s> for %s over every %s value (all 2^%d)" % (a, b, a, PRIMS[a])
        else:
            continue
        items.append((fn, desc, src, "pass", ["C04", "C05", "C18"]))
    for name, (rep, mx) in sorted(newtypes.items()):
        low = name.lower()
        d = dict(t=name, rep=rep, mx=mx, low=low, any=any_nt(name, newtypes))
        items.append(("nt_new_ok_" + low, "%s::new over every in-range %s" % (name, rep), """pub fn nt_new_ok_%(low)s<N: Nd>(nd: &mut N) {
    let v: %(rep)s = nd.%(rep)s_le(%(mx)d);
    let r = %(t)s::new(v);
    check!(r.get() == v, "C04 C05 %(t)s::new keeps the value");
    check!(unsafe { %(t)s::new_unchecked(v) } == r, "C05 %(t)s::new_unchecked agrees with new on valid input");
    witness!(nd, v == %(mx)d, "maximum");
}
""" % d, "pass", ["C04", "C05", "C18"]))
        items.append(("nt_new_must_panic_" + low, "%s::new over every out-of-range %s: must panic" % (name, rep), """pub fn nt_new_must_panic_%(low)s<N: Nd>(nd: &mut N) {
    let v: %(rep)s = nd.%(rep)s();
    nd.assume(v > %(mx)d);
    let _ = %(t)s::new(v);
    returned!(nd);
}
""" % d, "must_panic", ["C04", "C18"]))
        items.append(("nt_consts_ord_" + low, "%s: MIN/MAX/Default, Eq/Ord/PartialOrd/Hash vs. the numeric value over all pairs" % name, """pub fn nt_consts_ord_%(low)s<N: Nd>(nd: &mut N) {
    check!(%(t)s::MIN.get() == 0, "C04 C05 %(t)s::MIN is 0");
    check!(%(t)s::MAX.get() == %(mx)d, "C04 C05 %(t)s::MAX is %(mx)d");
    check!(<%(t)s as Default>::default().get() == 0, "C04 C05 %(t)s::default() is 0");
    let a: %(t)s = %(any)s;
    let b: %(t)s = %(any)s;
    let (x, y) = (a.get(), b.get());
    check!((a == b) == (x == y), "C05 %(t)s equality agrees with the numeric value");
    check!((a != b) == (x != y), "C05 %(t)s inequality agrees with the numeric value");
    check!((a < b) == (x < y) && (a <= b) == (x <= y) && (a > b) == (x > y) && (a >= b) == (x >= y),
        "C05 %(t)s ordering operators agree with the numeric value");
    check!(a.cmp(&b) == x.cmp(&y), "C05 %(t)s Ord agrees with the numeric value");
    check!(a.partial_cmp(&b) == Some(x.cmp(&y)), "C05 %(t)s PartialOrd agrees with the numeric value");
    check!(core::cmp::max(a, b).get() == core::cmp::max(x, y), "C05 %(t)s max agrees");
    check!(%(t)s::MIN <= a && a <= %(t)s::MAX, "C04 C05 every %(t)s lies between MIN and MAX");
    check!(crate::numeric::hash_of(&a) == crate::numeric::hash_of(&x), "C05 %(t)s hashes like its numeric value");
    let c = a;
    check!(c == a && c.clone() == a, "C05 %(t)s Copy/Clone preserve the value");
    witness!(nd, x < y, "a < b");
    witness!(nd, x == y, "a == b");
}
""" % d, "pass", ["C04", "C05", "C18"]))
        for L in (8, 9):
            dd = dict(d, L=L)
            items.append(("nt_parse_%s_len%d" % (low, L),
                          "str::parse::<%s> over every ASCII byte string of length 0..=%d" % (name, L),
                          """pub fn nt_parse_%(low)s_len%(L)d<N: Nd>(nd: &mut N) {
    crate::numeric::parse_all::<N, %(t)s, %(L)d>(nd, %(mx)d, %(L)d, |v| v.get() as u32)
}
""" % dd, "pass", ["C04", "C05", "C18"]))
        items.append(("nt_display_" + low, "Display of every %s value into a stack buffer" % name,
                      """pub fn nt_display_%(low)s<N: Nd>(nd: &mut N) {
    let v: %(t)s = %(any)s;
    crate::numeric::display_one(nd, v, v.get() as u32)
}
""" % d, "pass", ["C05", "C18"]))
    return items


def lsb_constant_pairs(repo):
    try:
        with open(os.path.join(repo, "src", "controller_number_mod.rs")) as f:
            src = f.read()
    except OSError:
        return []
    names = re.findall(r"pub const (\w+): ControllerNumber\s*=", src)
    return [(n[:-4], n) for n in names if n.endswith("_LSB") and n[:-4] in names]


def lsb_constants_source(repo):
    pairs = lsb_constant_pairs(repo)
    out = ["/// Every `X_LSB` constant found in /repo/src equals its MSB constant `X` + 32 (C16).\n",
           "pub fn c16_lsb_constants<N: Nd>(nd: &mut N) {\n    use helgoboss_midi::controller_numbers::*;\n"]
    for x, l in pairs:
        out.append('    check!(%s.get() == %s.get() + 32, "C16 %s equals %s + 32");\n' % (l, x, l, x))
        out.append('    check!(%s.corresponding_14_bit_lsb_controller_number() == Some(%s), '
                   '"C16 %s is the 14-bit LSB controller of %s");\n' % (x, l, l, x))
    out.append('    witness!(nd, true, "%d pairs");\n}\n' % len(pairs))
    return "".join(out)


def conversion_harnesses(repo):
    import registry
    hs = [registry.H("c16_lsb_constants", "generated::conv::c16_lsb_constants", ["C16", "C18"],
                     "the %d (X, X_LSB) constant pairs found in /repo/src/controller_number_mod.rs"
                     % len(lsb_constant_pairs(repo)))]
    for fn, desc, src, expect, props in conv_items(repo):
        if fn.startswith("nt_parse_"):
            L = int(fn[-1])
            # every ASCII string of length 0..=L (the longest in-range numerals have 5 digits, so
            # this covers a sign and a leading zero on top of them); shorter bounds are not run
            # L = 8 in both tiers, L = 9 (the largest length for which the u32 oracle cannot overflow) in the thorough tier
            hs.append(registry.H(fn, "generated::conv::" + fn, props, desc, unwind=L + 3,
                                 tier="quick" if L == 8 else "thorough",
                                 cost=30 if L == 8 else 60, timeout=3000))
            continue
        if fn.startswith("nt_display_"):
            hs.append(registry.H(fn, "generated::conv::" + fn, props, desc, unwind=9, cost=15))
            continue
        hs.append(registry.H(fn, "generated::conv::" + fn, props, desc, expect=expect, cost=2))
        # the same conversions in the configuration without the std feature
        if fn.startswith("nt_parse_") or fn.startswith("nt_display_"):
            continue
        hs.append(registry.H(fn + "_nostd", "generated::conv::" + fn, ["C04", "C18"] if expect != "pass" else ["C04"],
                             desc + " [--no-default-features]", cfg="nostd", expect=expect, cost=2,
                             tier="quick" if fn.startswith("nt_new") else "thorough"))
    return hs


def conversion_source(repo):
    out = ["// @generated from %s/src by /verif/lib/gen.py - do not edit\n" % repo,
           "#![allow(unused_imports, non_snake_case)]\n",
           "use crate::nd::Nd;\nuse crate::{check, returned, witness};\nuse helgoboss_midi::*;\n\n"]
    for fn, desc, src, expect, props in conv_items(repo):
        out.append("/// " + desc + "\n" + src + "\n")
    out.append(lsb_constants_source(repo))
    return "".join(out)


def generate(cfg, repo):
    import registry
    hs = [h for h in registry.all_harnesses() if h.cfg == cfg]
    proofs = ["// @generated by /verif/lib/gen.py - do not edit\n",
              "#[cfg(kani)]\npub mod proofs {\n    use crate::nd::KaniNd;\n"]
    native = ["#[cfg(not(kani))]\npub fn native(name: &str) -> Option<fn(&mut crate::nd::ReplayNd)> {\n"
              "    use crate::nd::ReplayNd;\n    match name {\n"]
    for h in hs:
        args = (", " + h.args) if h.args else ""
        proofs.append("    #[kani::proof]\n")
        if h.unwind:
            proofs.append("    #[kani::unwind(%d)]\n" % h.unwind)
        proofs.append(STUBS)
        proofs.append("    pub fn %s() {\n        crate::%s(&mut KaniNd%s)\n    }\n" % (h.name, h.body, args))
        native.append("        \"%s\" => Some(|nd: &mut ReplayNd| crate::%s(nd%s)),\n" % (h.name, h.body, args))
    proofs.append("}\n\n")
    native.append("        _ => None,\n    }\n}\n")
    out = {"mod.rs": "".join(proofs) + "".join(native) + "\npub mod conv;\n",
           "conv.rs": conversion_source(repo)}
    return out
