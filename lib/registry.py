"""Registry of harnesses: which solver query serves which property, in which configuration,
with which expected outcome. The `#[kani::proof]` wrappers are generated from this table
(lib/gen.py); the harness bodies are hand-written generic functions in /verif/harness/src."""
import os

REPO = os.environ.get("VERIF_REPO", "/repo")


class H:
    def __init__(self, name, body, props, desc, cfg="std", expect="pass", tier="quick",
                 unwind=None, cost=5, timeout=1200, args="", seed_pick=None, fast=None):
        if cfg == "serde" and unwind is None:
            # string comparisons of field / variant names are memcmp loops: bound them
            unwind = 24
            fast = False
        self.name = name
        self.body = body          # Rust path below crate::, generic over Nd
        self.props = props        # property ids this harness serves
        self.desc = desc          # domain / what is decided
        self.cfg = cfg            # std | nostd | serde
        self.expect = expect      # pass | must_panic | witness_fail
        self.tier = tier          # quick (both tiers) | thorough
        self.unwind = unwind
        self.cost = cost          # estimated seconds (scheduling only)
        self.timeout = timeout
        self.args = args          # extra Rust arguments after `nd`
        self.seed_pick = seed_pick  # None or function(seed) -> bool: in quick tier only if True
        # fast: run with --no-assertion-reach-checks --no-memory-safety-checks (scanner harnesses:
        # vacuity is covered by the kani::cover witnesses; the crate has no raw-pointer code and the
        # pointer checks stay on in all message-level harnesses). Default: on for unwind-17 harnesses.
        self.fast = (unwind is not None and unwind >= 17) if fast is None else fast


_STATIC = []


def add(*a, **k):
    h = H(*a, **k)
    _STATIC.append(h)
    return h


PROPS = {}


def prop(pid, bounds, outside, assumptions=None):
    PROPS[pid] = {"bounds": bounds, "outside": outside, "assumptions": assumptions or []}


# ------------------------------------------------------------------------------------------------
# C01
# ------------------------------------------------------------------------------------------------
prop("C01",
     bounds="full domain, loop-free: all 256 x 128 x 128 (status, data1, data2) triples; every value of "
            "StructuredShortMessage built from its 23 public variants with all field values (one solver "
            "query per variant); all 128 quarter-frame bytes and all 120 frames; all 256 type bytes; "
            "factory implementations RawShortMessage, StructuredShortMessage and two harness-defined "
            "third-party implementors",
     outside="third-party implementors other than the two harness-defined ones; data bytes > 127 cannot "
             "be constructed through the safe API and are not part of the domain")

add("c01_from_bytes_raw", "c01::from_bytes_raw", ["C01", "C18"],
    "all 256x128x128 triples: RawShortMessage::from_bytes/TryFrom accept iff status>=0x80, bytes verbatim")
add("c01_from_bytes_structured", "c01::from_bytes_structured", ["C01", "C18"],
    "all 256x128x128 triples: StructuredShortMessage::from_bytes accepts iff status>=0x80, bytes canonical",
    cost=20)
add("c01_from_bytes_foreign", "c01::from_bytes_foreign", ["C01", "C18"],
    "all 256x128x128 triples: third-party factories accept iff status>=0x80, bytes verbatim")
for _v in range(23):
    add("c01_structured_values_v%02d" % _v, "c01::structured_values", ["C01", "C18"],
        "every StructuredShortMessage value of variant #%d (all field values): bytes/raw/structured "
        "round trips are the identity" % _v, args="%d" % _v, cost=8)
add("c01_raw_structured_raw", "c01::raw_structured_raw", ["C01", "C18"],
    "all 2^21 valid triples: raw->structured->raw->structured idempotent, second raw canonical", cost=60)
add("c01_quarter_frame", "c01::quarter_frame", ["C01", "C18"],
    "all 128 data bytes and all 120 TimeCodeQuarterFrame values, both directions", cost=10)
add("c01_type_u8", "c01::type_u8", ["C01", "C02", "C18"],
    "all 256 u8 values and all 23 ShortMessageType values, both directions")
add("c01_twin", "c01::twin", ["C01"], "witness twin: a deliberately false claim must be refuted",
    expect="witness_fail")


# ------------------------------------------------------------------------------------------------
# C02 / C03
# ------------------------------------------------------------------------------------------------
prop("C02",
     bounds="full domain, loop-free: all 2^21 valid (status, data1, data2) triples (one solver query per "
            "status high nibble 0x8..0xF and implementation), implementations RawShortMessage, "
            "StructuredShortMessage, byte-getter-only third-party implementor and one overriding "
            "to_bytes; all 256 u8 for the ShortMessageType conversion",
     outside="third-party implementors that violate the trait contract (status byte < 0x80)")
prop("C03",
     bounds="full domain, loop-free: all 2^21 valid triples; all 16 ordered pairs of the four "
            "implementations for to_other/from_other/to_structured; every trait method",
     outside="third-party implementors other than the two harness-defined ones")
IMPLS = ["raw", "structured", "foreign", "foreignbytes"]
for _hi in range(8, 16):
    for _imp in range(4):
        add("c02_classify_%x_%s" % (_hi, IMPLS[_imp]), "c02::classify", ["C02", "C04", "C18"],
            "all valid triples with status 0x%X0..0x%XF x all data bytes, implementation %s: every "
            "accessor vs. the MIDI 1.0 table" % (_hi, _hi, IMPLS[_imp]),
            args="%d, %d" % (_hi, _imp), cost=15 if _hi < 15 else 40)
    add("c03_obs_equal_%x" % _hi, "c03::obs_equal", ["C03", "C18"],
        "all valid triples with status 0x%X0..0x%XF: observation of every trait method equal across "
        "the four implementations" % (_hi, _hi), args="%d" % _hi, cost=40)
    for _imp in range(4):
        add("c03_conversions_%x_%s" % (_hi, IMPLS[_imp]), "c03::conversions", ["C03", "C01", "C18"],
            "all valid triples with status 0x%X0..0x%XF, source %s: to_other/from_other/to_structured to "
            "all four implementations commute" % (_hi, _hi, IMPLS[_imp]),
            args="%d, %d" % (_hi, _imp), cost=25)
add("c02_twin", "c02::twin", ["C02", "C03"], "witness twin", expect="witness_fail")

# ------------------------------------------------------------------------------------------------
# C06
# ------------------------------------------------------------------------------------------------
prop("C06",
     bounds="full domain, loop-free: all argument tuples of the 19 named constructors and the 3 generic "
            "ones (all 23 types x channel x data), for RawShortMessage and StructuredShortMessage; every "
            "test_util shorthand over all u8/u16 argument values (in-range: equality with the checked "
            "constructor; out-of-range: must panic)",
     outside="factory implementations other than RawShortMessage / StructuredShortMessage")
for _s in (0, 1):
    _sn = "structured" if _s else "raw"
    _sb = "true" if _s else "false"
    for _w, _wn in enumerate(["note_on", "note_off", "control_change", "polyphonic_key_pressure"]):
        add("c06_%s_%s" % (_wn, _sn), "c06::channel3", ["C06", "C04", "C18"],
            "%s::%s for all 16x128x128 arguments" % (_sn, _wn), args="%d, %s" % (_w, _sb), cost=10)
    add("c06_channel2_%s" % _sn, "c06::channel2", ["C06", "C04", "C18"],
        "%s::{program_change, channel_pressure, pitch_bend_change} for all arguments" % _sn,
        args=_sb, cost=25)
    add("c06_system_%s" % _sn, "c06::system", ["C06", "C04", "C18"],
        "%s system constructors: all 120 quarter frames, all 16384 positions, all 128 song numbers, "
        "all argument-less constructors" % _sn, args=_sb, cost=40)
    for _w, _wn in enumerate(["channel_message", "system_common_message", "system_real_time_message"]):
        add("c06_%s_ok_%s" % (_wn, _sn), "c06::generic_ok", ["C06", "C04", "C18"],
            "%s::%s for all types of the matching category x all arguments" % (_sn, _wn),
            args="%d, %s" % (_w, _sb), cost=20)
        add("c06_%s_must_panic_%s" % (_wn, _sn), "c06::generic_must_panic", ["C06", "C18"],
            "%s::%s for all types of another category x all arguments: must panic" % (_sn, _wn),
            args="%d, %s" % (_w, _sb), expect="must_panic", cost=5)
for _g in range(4):
    add("c06_shorthand_ok_g%d" % _g, "c06::shorthand_ok", ["C06", "C18"],
        "test_util shorthands (group %d) for all in-range primitive arguments equal the checked "
        "constructors" % _g, args="%d" % _g, cost=30)
for _w in range(21):
    add("c06_shorthand_must_panic_%02d" % _w, "c06::shorthand_must_panic", ["C06", "C18"],
        "test_util shorthand #%d: every out-of-range argument combination panics" % _w,
        args="%d" % _w, expect="must_panic", cost=4)
add("c06_twin", "c06::twin", ["C06"], "witness twin", expect="witness_fail")

# ------------------------------------------------------------------------------------------------
# C04 / C05 (conversion harnesses are generated from /repo/src, see lib/gen.py)
# ------------------------------------------------------------------------------------------------
prop("C04",
     bounds="every From/TryFrom impl found in /repo/src on this run, each over the ENTIRE source type "
            "(all 2^128 values for i128/u128, all usize/isize) - no sampling; T::new ok/must-panic over "
            "the whole repr type in configurations default(std) and --no-default-features; MIN/MAX/"
            "Default; FromStr over all ASCII strings of length 0..=8 (thorough: 0..=9); "
            "accessor values of all valid messages; constructors, encoders and scanner outputs via the "
            "in-range assertions of the C02/C06/C07/C09/C11/C14 harnesses",
     outside="strings longer than the stated length or containing non-ASCII bytes; unsafe "
             "new_unchecked with an invalid argument (outside the safe API)")
prop("C05",
     bounds="every From/TryFrom impl found in /repo/src on this run over the entire source type; "
            "Eq/Ord/PartialOrd/Hash/max/Copy over all pairs of values; MIN/MAX/Default; FromStr over all "
            "ASCII byte strings of length 0..=8 (quick) and 0..=9 (thorough) (128^8 + ... strings per type, decided "
            "symbolically), unwind L+3 with unwinding assertions; Display of every value into a stack buffer",
     outside="strings longer than the bound, non-ASCII bytes, Display with width/fill/precision flags")

# ------------------------------------------------------------------------------------------------
# C07 / C08 and the CC14 part of C15, C16, C17
# ------------------------------------------------------------------------------------------------
ALL = 0xFFFF
prop("C07",
     bounds="message: all 16 x 32 x 16384 messages, all 128 controller numbers for the panic condition, "
            "both encoding targets; inversion: from EVERY reachable scanner state - all 16 channels "
            "simultaneously arbitrary (family ALL16, justified by the C08 induction), one solver query per "
            "message channel; unwind 17 (16-channel arrays) with unwinding assertions",
     outside="nothing within the statement; encoding targets other than RawShortMessage / "
             "StructuredShortMessage")
prop("C08",
     bounds="one-step induction over the observer 'most recent Control Change < 32 per channel': every "
            "abstract state of all 16 channels x every Control Change (16 instances, one per channel of the "
            "step message, controller number and value symbolic) x every non-Control-Change message x reset; "
            "post-state compared with the scanner rebuilt from the advanced observer (derived PartialEq); "
            "histories of any length follow by induction; literal 4-event histories on channel pairs as a "
            "cross-check; unwind 17",
     outside="nothing within the statement (the induction covers all histories); trusted: derived "
             "PartialEq of the scanner is structural")
for _c in range(16):
    add("cc14_step_cc_ch%02d" % _c, "cc14::step_cc", ["C08", "C15", "C16", "C07", "C17", "C04", "C18"],
        "ALL16: every abstract state of all 16 channels x every Control Change on channel %d "
        "(controller number, value symbolic): output and post-state vs. observer" % _c,
        args="0xFFFF, %d" % _c, unwind=17, cost=60)
    add("cc14_inversion_ch%02d" % _c, "cc14::inversion", ["C07", "C18"],
        "ALL16: every state x every 14-bit CC message on channel %d: encoding fed back yields None, "
        "then the original (raw and structured targets)" % _c,
        args="0xFFFF, %d" % _c, unwind=17, cost=60)
add("cc14_step_other", "cc14::step_other", ["C08", "C15", "C16", "C18"],
    "ALL16: every state x every message that is not a Control Change (all channel voice messages on "
    "all channels, all system messages, raw and structured): nothing reported, state equal",
    args="0xFFFF", unwind=17, cost=90)
add("cc14_reset_and_copy", "cc14::reset_and_copy", ["C17", "C08", "C18"],
    "ALL16: every state: reset() == new() == default(); copies evolve identically and independently",
    args="0xFFFF", unwind=17, cost=60)
add("cc14_message_ok", "cc14::message_ok", ["C07", "C04", "C18"],
    "all 16 x 32 x 16384 messages: getters, both encodings, array conversion", cost=20)
add("cc14_message_must_panic", "cc14::message_must_panic", ["C07", "C18"],
    "all MSB controller numbers 32..=127 x channel x value: new must panic", expect="must_panic")
for (_a, _b) in [(0, 1), (7, 8), (15, 0), (3, 11)]:
    add("cc14_literal_%d_%d" % (_a, _b), "cc14::literal", ["C08", "C15", "C17", "C18"],
        "literal histories from new(): 4 symbolic events (CC<64 on channel %d or %d, or reset)" % (_a, _b),
        args="%d, %d" % (_a, _b), unwind=17, cost=30)
    add("cc14_interleave_%d_%d" % (_a, _b), "cc14::interleave", ["C15", "C18"],
        "literal: 4 symbolic CC events on channels %d/%d interleaved vs. split to own scanners" % (_a, _b),
        args="%d, %d" % (_a, _b), unwind=17, cost=30)
add("c16_predicates", "cc14::predicates", ["C16", "C02", "C18"],
    "all 128 controller numbers: the four ControllerNumber predicates")
add("cc14_twin", "cc14::twin", ["C07", "C08"], "witness twin", expect="witness_fail", unwind=17)

# ------------------------------------------------------------------------------------------------
# C09, C10, C11 and the (N)RPN part of C15, C16, C17
# ------------------------------------------------------------------------------------------------
prop("C09",
     bounds="full product, loop-free: all 8 constructors x 16 channels x 16384 numbers x all 7-/14-bit "
            "values x both byte orders x {RawShortMessage, StructuredShortMessage}, one solver query per "
            "(data kind, target); both tiers decide the full product",
     outside="encoding targets other than RawShortMessage / StructuredShortMessage")
prop("C10",
     bounds="every ParameterNumberMessage value (channel per instance, number/value/registered symbolic, "
            "4 kinds) fed from EVERY reachable scanner state of the family: quick = the message's channel "
            "arbitrary plus its xor-8 and xor-1 neighbours, others initial; thorough = all 16 channels "
            "arbitrary (ALL16); running forms: 3 repetitions literal after a symbolic number selection in "
            "either order - arbitrary lengths follow from the C11 step (data bytes leave the state "
            "unchanged); unwind 17",
     outside="quick tier: histories in which four or more channels are simultaneously non-initial "
             "(covered by the thorough tier's ALL16 family)")
prop("C11",
     bounds="one-step induction over the observer {latest number MSB, LSB, kind of the last number byte, "
            "controller-38 value since the last number byte} per channel: every valid abstract state of the "
            "family x every Control Change (controller, value symbolic; one instance per channel) x every "
            "non-CC message x reset; families: quick = step channel arbitrary plus xor-8 / xor-1 neighbours "
            "(3 channels arbitrary), thorough = ALL16; literal 4-event histories on channel pairs; unwind 17",
     outside="quick tier: states with four or more simultaneously non-initial channels (thorough: none)")
for _k, _kn in enumerate(["7bit", "14bit", "increment", "decrement"]):
    for _s in (0, 1):
        add("pnm_encode_%s_%s" % (_kn, "structured" if _s else "raw"), "pnm::encode", ["C09", "C04", "C18"],
            "all %s (N)RPN messages (registered and not, all channels, numbers, values, both byte orders) -> "
            "%s slots" % (_kn, "structured" if _s else "raw"), args="%d, %s" % (_k, "true" if _s else "false"),
            cost=30)


def _mask3(c):
    return (1 << c) | (1 << (c ^ 8)) | (1 << (c ^ 1))


for _c in range(16):
    add("nrpn_step_cc_ch%02d" % _c, "pnm::step_cc", ["C11", "C10", "C15", "C16", "C17", "C04", "C18"],
        "channels %d,%d,%d arbitrary: every abstract state x every Control Change on channel %d" % (
            _c, _c ^ 8, _c ^ 1, _c), args="0x%04x, %d" % (_mask3(_c), _c), unwind=17, cost=60)
    add("nrpn_step_cc_all16_ch%02d" % _c, "pnm::step_cc", ["C11", "C10", "C15", "C16", "C18"],
        "ALL16: every abstract state of all 16 channels x every Control Change on channel %d" % _c,
        args="0xFFFF, %d" % _c, unwind=17, cost=400, tier="thorough", timeout=7200)
    for _k, _kn in enumerate(["7bit", "14bit", "increment", "decrement"]):
        add("nrpn_inversion_%s_ch%02d" % (_kn, _c), "pnm::inversion", ["C10", "C18"],
            "channels %d,%d,%d arbitrary x every %s message on channel %d: encoding fed back yields "
            "nothing, then the original" % (_c, _c ^ 8, _c ^ 1, _kn, _c),
            args="0x%04x, %d, %d" % (_mask3(_c), _c, _k), unwind=17, cost=40)
        add("nrpn_inversion_all16_%s_ch%02d" % (_kn, _c), "pnm::inversion", ["C10", "C18"],
            "ALL16 x every %s message on channel %d: encoding fed back yields nothing, then the original"
            % (_kn, _c), args="0xFFFF, %d, %d" % (_c, _k), unwind=17, cost=300, tier="thorough",
            timeout=7200)
    for _f, _fn in enumerate(["data_bytes", "lsb_msb_pairs", "inc_dec"]):
        add("nrpn_running_%s_ch%02d" % (_fn, _c), "pnm::running", ["C10", "C18"],
            "channel %d arbitrary: number selection (either order), then 3 x %s" % (_c, _fn),
            args="0x%04x, %d, %d" % (1 << _c, _c, _f), unwind=17, cost=30,
            seed_pick=(lambda seed, c=_c: c in (0, 15, (seed * 7 + 5) % 16)))
add("nrpn_step_other", "pnm::step_other", ["C11", "C15", "C16", "C18"],
    "channels 0,5,10,15 arbitrary x every message that is not a Control Change: nothing reported, state equal",
    args="0x8421", unwind=17, cost=60)
add("nrpn_step_other_all16", "pnm::step_other", ["C11", "C15", "C16", "C18"],
    "ALL16 x every message that is not a Control Change: nothing reported, state equal",
    args="0xFFFF", unwind=17, cost=300, tier="thorough", timeout=7200)
add("nrpn_reset_and_copy", "pnm::reset_and_copy", ["C17", "C11", "C18"],
    "channels 0,5,10,15 arbitrary: reset() == new() == default(); copies evolve identically",
    args="0x8421", unwind=17, cost=60)
add("nrpn_reset_and_copy_all16", "pnm::reset_and_copy", ["C17", "C11", "C18"],
    "ALL16: reset() == new() == default(); copies evolve identically",
    args="0xFFFF", unwind=17, cost=300, tier="thorough", timeout=7200)
for (_a, _b) in [(0, 1), (7, 8), (15, 0), (3, 11)]:
    add("nrpn_literal_%d_%d" % (_a, _b), "pnm::literal", ["C11", "C15", "C17", "C18"],
        "literal histories from new(): 4 symbolic contributing events on channels %d/%d or reset" % (_a, _b),
        args="%d, %d" % (_a, _b), unwind=17, cost=40)
    add("nrpn_interleave_%d_%d" % (_a, _b), "pnm::interleave", ["C15", "C18"],
        "literal: 4 symbolic events on channels %d/%d interleaved vs. own scanners" % (_a, _b),
        args="%d, %d" % (_a, _b), unwind=17, cost=40)
add("nrpn_twin", "pnm::twin", ["C09", "C10", "C11"], "witness twin", expect="witness_fail", unwind=17)

# ------------------------------------------------------------------------------------------------
# C12, C13, C14 and the polling part of C15, C16, C17
# ------------------------------------------------------------------------------------------------
prop("C12",
     bounds="(a) one-step induction: every valid abstract state of the family x every timeout "
            "(u64 s, ns) x every time x every Control Change / poll / reset, post-state compared with the "
            "scanner rebuilt from the advanced observer; families: SIM(c) = only the step channel arbitrary (all 16 "
            "channels, quick) and ALL16 = all 16 channels simultaneously arbitrary (quick: step channel 0 and "
            "one VERIF_SEED-chosen; thorough: all 16), the step channel generated last on a shared base "
            "plus an order lemma that this equals the canonical concretisation; (b) literal "
            "sentences of the documented grammar: number selection in either order + up to 3 units with "
            "symbolic early polls; (c) encode/feed/poll round trip of every ParameterNumberMessage in "
            "either byte order from every family state; unwind 17",
     outside="quick tier: an interference between channels that shows only when the step channel is neither "
             "0 nor the seed-chosen one (thorough: none); sentences longer than 3 units are covered only "
             "through the induction step")
prop("C13",
     bounds="poll step from every valid abstract state of the family (SIM x 16, ALL16 for 2 step channels; "
            "thorough: ALL16 x 16) with "
            "symbolic now >= arrival and symbolic timeout over the full Duration domain (0, tiny, "
            "u64::MAX seconds); feed at two arbitrary instants returns identical outputs; unwind 17",
     outside="the real std::time::Instant (replaced by the mock clock hook); quick tier: multi-channel "
             "states only for step channels 0 and the seed-chosen one")
prop("C14",
     bounds="feed / poll / reset step from every valid abstract state of the family with the C14 clauses "
            "asserted on (pre-state, event, real outputs) independently of the observer's transition "
            "function; full message alphabet (step message arbitrary, malformed and mixed "
            "registered/non-registered traffic included); families as C12",
     outside="as C12")
prop("C15",
     bounds="all three scanners: post-state equals the observer with ONLY the addressed channel advanced, "
            "for families CC14: ALL16; (N)RPN: TRI (quick) / ALL16 (thorough); polling: SIM x 16 + ALL16 for 2 step channels "
            "(quick) / ALL16 x 16 (thorough); output channel = input channel; system messages (all 16 status bytes "
            "0xF0-0xFF x all data) report nothing and leave every family state equal; literal 4-event "
            "interleavings on channel pairs vs. own scanners",
     outside="(N)RPN quick tier: interference needing four or more non-initial channels; polling quick "
             "tier: interference visible only for step channels other than 0 and the seed-chosen one")
prop("C16",
     bounds="from every family state of each scanner: every non-Control-Change message (status symbolic, "
            "all data) and every Control Change with a non-contributing controller number (all values): "
            "nothing reported, state equal (derived PartialEq); the four ControllerNumber predicates on "
            "all 128 numbers; every *_LSB constant found in /repo/src equals its MSB constant + 32",
     outside="as C15")
prop("C17",
     bounds="from every family state of each scanner: reset() == new() (same timeout for the polling "
            "scanner, timeout symbolic over the full Duration domain), new() == default(), polling "
            "default() == new(0); a copy stepped with the same event gives the same output and state and "
            "leaves the original's earlier copy untouched; equality of states implies equal continuations "
            "because the scanners are plain Copy values whose behaviour is a function of the compared state",
     outside="as C15")
def _pick(n):
    """quick tier: channel 0 and n seed-chosen further channels (n = 0: channels 0 and 15)"""
    def f(seed, c):
        chosen = {0, 15} if n == 0 else {0}
        x = seed * 2654435761 % (1 << 32)
        for _ in range(n):
            x = (x * 1103515245 + 12345) % (1 << 31)
            chosen.add((x >> 8) % 15 + 1)
        return c in chosen
    return f


KINDS = ["7bit", "14bit", "increment", "decrement"]
for _c in range(16):
    # families: SIM(c) = only the step channel arbitrary (all 16 instances in the quick tier);
    # ALL16 = all 16 channels arbitrary (quick: channels 0, 15 and one seed-chosen; thorough: all)
    for _fam, _mask in (("sim", 1 << _c), ("all16", 0xFFFF)):
        _pk = None if _fam == "sim" else (lambda seed, c=_c: _pick(1)(seed, c))
        _cost = {"sim": 60, "all16": 200}[_fam]
        add("poll_step_feed_%s_ch%02d" % (_fam, _c), "poll::step_feed",
            ["C12", "C13", "C14", "C15", "C16", "C04", "C18"],
            "family %s (mask 0x%04x): every abstract state x timeout x time x every Control Change on "
            "channel %d" % (_fam, _mask, _c), args="0x%04x, %d" % (_mask, _c), unwind=17, cost=_cost,
            timeout=5400, seed_pick=_pk)
        add("poll_step_poll_%s_ch%02d" % (_fam, _c), "poll::step_poll",
            ["C13", "C12", "C14", "C15", "C18"],
            "family %s (mask 0x%04x): every abstract state x timeout x time: poll(%d)" % (_fam, _mask, _c),
            args="0x%04x, %d" % (_mask, _c), unwind=17, cost=_cost * 0.9, timeout=5400,
            seed_pick=_pk)
    add("poll_time_independent_ch%02d" % _c, "poll::feed_time_independent", ["C13", "C18"],
        "channel %d arbitrary: feed at two arbitrary instants returns identical outputs" % _c,
        args="0x%04x, %d" % (1 << _c, _c), unwind=17, cost=60,
        seed_pick=(lambda seed, c=_c: _pick(0)(seed, c)))
    for _k, _kn in enumerate(KINDS):
        add("poll_roundtrip_%s_ch%02d" % (_kn, _c), "poll::roundtrip", ["C12", "C18"],
            "channel %d arbitrary x every %s message, either byte order, arbitrary non-decreasing feed "
            "times, poll after the timeout: exactly that message (after at most a flush)" % (_c, _kn),
            args="0x%04x, %d, %d" % (1 << _c, _c, _k), unwind=17, cost=80,
            seed_pick=(lambda seed, c=_c: _pick(0)(seed, c)))
    add("poll_sentences_ch%02d" % _c, "poll::sentences", ["C12", "C13", "C14", "C16", "C18"],
        "channel %d: literal sentences of the documented grammar, 3 units, early polls, non-contributing "
        "messages, symbolic times and timeout, final poll" % _c, args="%d" % _c, unwind=17, cost=150,
        seed_pick=(lambda seed, c=_c: _pick(0)(seed, c)), timeout=3600)
    add("poll_order_lemma_all16_ch%02d" % _c, "poll::order_lemma", ["C15", "C12", "C13", "C14"],
        "family all16: generating channel %d last equals the canonical concretisation" % _c,
        args="0xFFFF, %d" % _c, unwind=17, cost=300, timeout=5400,
        seed_pick=(lambda seed, c=_c: _pick(1)(seed, c)))
add("poll_step_other", "poll::step_other", ["C16", "C15", "C12", "C18"],
    "channels 0,5,10,15 arbitrary x every message that is not a Control Change: nothing reported, state equal",
    args="0x8421", unwind=17, cost=120)
add("poll_step_other_all16", "poll::step_other", ["C16", "C15", "C18"],
    "ALL16 x every message that is not a Control Change: nothing reported, state equal",
    args="0xFFFF", unwind=17, cost=400, tier="thorough", timeout=5400)
add("poll_reset_and_copy", "poll::reset_and_copy", ["C17", "C13", "C12", "C18"],
    "channels 0,5,10,15 arbitrary, timeout symbolic: reset() == new(timeout); default() == new(0); "
    "copies evolve identically", args="0x8421", unwind=17, cost=120)
add("poll_reset_and_copy_all16", "poll::reset_and_copy", ["C17", "C18"],
    "ALL16, timeout symbolic: reset() == new(timeout); copies evolve identically",
    args="0xFFFF", unwind=17, cost=400, tier="thorough", timeout=5400)
for (_a, _b) in [(0, 1), (7, 8), (15, 0), (3, 11)]:
    add("poll_interleave_%d_%d" % (_a, _b), "poll::interleave", ["C15", "C18"],
        "literal: number selection on both channels, then 2 symbolic events (data entry MSB/LSB, increment "
        "or poll, symbolic times) on channels %d/%d interleaved vs. own scanners" % (_a, _b),
        args="%d, %d" % (_a, _b), unwind=17, cost=150, tier="quick" if _a in (0, 7) else "thorough")
for (_a, _b) in [(0, 1), (7, 8), (15, 0), (3, 11)]:
    add("poll_literal_%d_%d" % (_a, _b), "poll::literal", ["C12", "C13", "C14", "C15", "C17", "C18"],
        "literal histories from new(timeout): 4 symbolic events (any contributing CC, poll or reset, symbolic "
        "times) on channels %d/%d: outputs equal the observer's" % (_a, _b),
        args="%d, %d" % (_a, _b), unwind=17, cost=500, tier="thorough", timeout=5400)
add("poll_twin", "poll::twin", ["C12", "C13", "C14", "C15", "C16", "C17"], "witness twin",
    expect="witness_fail", unwind=17)

# ------------------------------------------------------------------------------------------------
# C18, C19
# ------------------------------------------------------------------------------------------------
prop("C18",
     bounds="every harness of the suite that calls the API with valid input is compiled with "
            "std::alloc::{alloc, alloc_zeroed, realloc} replaced by a failing assertion (-Z stubbing) and "
            "with Kani's default checks (arithmetic overflow, index out of bounds, unwrap/expect/"
            "unreachable!/assert! failures) on, so reaching an allocation or a panic on ANY input of those "
            "symbolic domains is a failed check; documented panics are exactly the *_must_panic harnesses "
            "(call must not return) whose twins with valid arguments verify cleanly; quick = the harnesses "
            "with an estimated cost of at most 45 s plus the scanner steps of two channels; thorough = all",
     outside="the real Instant::now() (hooked out); the panic machinery itself after a documented panic; "
             "Display with width/fill flags; Display of the three error types (their derived Display goes "
             "through Formatter::pad, whose string loops did not verify within reach under Kani - tried and "
             "dropped); to_string() (allocates in the caller by definition)")
add("c18_w_box", "c18::w_box", ["C18"], "witness: Box::new must be caught by the allocation stub",
    expect="witness_fail")
add("c18_w_vec", "c18::w_vec", ["C18"], "witness: Vec::push must be caught by the allocation stub",
    expect="witness_fail", unwind=4, fast=False)
add("c18_w_string", "c18::w_string", ["C18"], "witness: String::from must be caught by the allocation stub",
    expect="witness_fail", unwind=4, fast=False)
add("c18_w_vec_of_messages", "c18::w_vec_of_messages", ["C18"],
    "witness: collecting encoded messages into a Vec must be caught", expect="witness_fail", unwind=4,
    fast=False)

prop("C19",
     bounds="configuration serde + serde_repr; a self-describing token deserializer feeds the real "
            "Deserialize impls: restricted integers from every u64 leaf; RawShortMessage from every "
            "(u16,u16,u16) leaf triple; ControlChange14BitMessage and ParameterNumberMessage as sequence and "
            "as map (declaration order) from every u16 / bool / variant leaf combination, variants by index "
            "and by name; ShortMessageType from every u64; TimeCodeType / DataType from every u32 variant "
            "index; structured variants with out-of-range field leaves; round trip of every valid value of "
            "all public types through the token serializer",
     outside="other key orders, duplicate or unknown keys, borrowed-bytes identifiers, non-integer leaves "
             "for integer fields, formats that are not self-describing")
add("c19_integers", "c19::integers", ["C19", "C04", "C18"],
    "six restricted integer types from every u64 leaf", cfg="serde", cost=20, unwind=24, fast=False)
add("c19_raw", "c19::raw", ["C19", "C18"],
    "RawShortMessage from every (u16, u16, u16) leaf triple", cfg="serde", cost=30, unwind=24, fast=False)
for _m in (0, 1):
    add("c19_cc14_%s" % ("map" if _m else "seq"), "c19::cc14", ["C19", "C18"],
        "ControlChange14BitMessage as %s from every (u16,u16,u16) leaf triple" % ("map" if _m else "seq"),
        cfg="serde", args="true" if _m else "false", cost=40, unwind=24, fast=False)
    for _bn in (0, 1):
        add("c19_pnm_%s_%s" % ("map" if _m else "seq", "byname" if _bn else "byindex"), "c19::pnm",
            ["C19", "C18"],
            "ParameterNumberMessage as %s from every leaf combination, data type %s"
            % ("map" if _m else "seq", "by name" if _bn else "by index"), cfg="serde",
            args="%s, %s" % ("true" if _m else "false", "true" if _bn else "false"), cost=60)
for _w, _wn in enumerate(["integers", "raw", "cc14", "pnm"]):
    add("c19_roundtrip_%s" % _wn, "c19::roundtrip", ["C19", "C18"],
        "serialize -> deserialize of every valid %s value" % _wn, cfg="serde", args="%d, 0" % _w, cost=40)
for _v in range(15):
    add("c19_roundtrip_quarter_frame_k%02d" % _v, "c19::roundtrip", ["C19", "C18"],
        ("serialize -> deserialize of every quarter frame of kind %d" % _v) if _v < 7 else
        ("serialize -> deserialize of the 'last' quarter frame with bits %d" % (_v - 7)), cfg="serde",
        args="4, %d" % _v, cost=20)
for _v in range(8):
    add("c19_roundtrip_structured_last%d" % _v, "c19::roundtrip", ["C19", "C18"],
        "serialize -> deserialize of StructuredShortMessage::TimeCodeQuarterFrame(Last) with bits %d" % _v,
        cfg="serde", args="6, %d" % (100 + _v), cost=20)
add("c19_roundtrip_message_type", "c19::roundtrip", ["C19", "C18"],
    "serialize -> deserialize of all 23 message types", cfg="serde", args="5, 0", cost=30)
for _v in range(23):
    add("c19_roundtrip_structured_v%02d" % _v, "c19::roundtrip", ["C19", "C18"],
        "serialize -> deserialize of every StructuredShortMessage value of variant #%d" % _v, cfg="serde",
        args="6, %d" % _v, cost=40, timeout=3600)
add("c19_enums", "c19::enums", ["C19", "C18"],
    "ShortMessageType from every u64, TimeCodeType / DataType from every u32 variant index", cfg="serde",
    cost=20, unwind=24, fast=False)
add("c19_structured_fields", "c19::structured_fields", ["C19", "C18"],
    "structured variants and quarter frames with arbitrary u16 field leaves", cfg="serde", cost=40,
    unwind=24, fast=False)
add("c19_twin", "c19::twin", ["C19"], "witness twin", cfg="serde", expect="witness_fail")

# ------------------------------------------------------------------------------------------------

def all_harnesses():
    import gen
    return list(_STATIC) + gen.conversion_harnesses(REPO)


def by_name(name):
    for h in all_harnesses():
        if h.name == name:
            return h
    return None


def select(pid, tier, seed):
    out = []
    for h in all_harnesses():
        if pid not in h.props:
            continue
        if h.tier == "thorough" and tier != "thorough":
            continue
        if tier != "thorough" and h.seed_pick is not None and not h.seed_pick(seed):
            continue
        if pid == "C18" and tier != "thorough" and h.cost > 45 and not (
                h.name.endswith("_ch00") or h.name.endswith("_ch15")) and h.expect == "pass":
            continue
        out.append(h)
    return out
