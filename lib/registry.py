"""Registry of harnesses: which solver query serves which property, in which configuration,
with which expected outcome. The `#[kani::proof]` wrappers are generated from this table
(lib/gen.py); the harness bodies are hand-written generic functions in /verif/harness/src."""
import os

REPO = os.environ.get("VERIF_REPO", "/repo")


class H:
    def __init__(self, name, body, props, desc, cfg="std", expect="pass", tier="quick",
                 unwind=None, cost=5, timeout=1200, args="", seed_pick=None):
        self.name = name
        self.body = body          # Rust path below crate::, generic over Nd
        self.props = props        # property ids this harness serves
        self.desc = desc          # domain / what is decided
        self.cfg = cfg            # std | nostd | serde
        self.expect = expect      # pass | must_panic | witness_fail
        self.tier = tier          # quick (both tiers) | thorough
        self.unwind = unwind
        self.cost = cost          # estimated seconds (scheduling only)
        self.timeout = timeout
        self.args = args          # extra Rust arguments after `nd`
        self.seed_pick = seed_pick  # None or function(seed) -> bool: in quick tier only if True


_STATIC = []


def add(*a, **k):
    h = H(*a, **k)
    _STATIC.append(h)
    return h


PROPS = {}


def prop(pid, bounds, outside, assumptions=None):
    PROPS[pid] = {"bounds": bounds, "outside": outside, "assumptions": assumptions or []}


# ------------------------------------------------------------------------------------------------
# C01
# ------------------------------------------------------------------------------------------------
prop("C01",
     bounds="full domain, loop-free: all 256 x 128 x 128 (status, data1, data2) triples; every value of "
            "StructuredShortMessage built from its 23 public variants with all field values (one solver "
            "query per variant); all 128 quarter-frame bytes and all 120 frames; all 256 type bytes; "
            "factory implementations RawShortMessage, StructuredShortMessage and two harness-defined "
            "third-party implementors",
     outside="third-party implementors other than the two harness-defined ones; data bytes > 127 cannot "
             "be constructed through the safe API and are not part of the domain")

add("c01_from_bytes_raw", "c01::from_bytes_raw", ["C01", "C18"],
    "all 256x128x128 triples: RawShortMessage::from_bytes/TryFrom accept iff status>=0x80, bytes verbatim")
add("c01_from_bytes_structured", "c01::from_bytes_structured", ["C01", "C18"],
    "all 256x128x128 triples: StructuredShortMessage::from_bytes accepts iff status>=0x80, bytes canonical",
    cost=20)
add("c01_from_bytes_foreign", "c01::from_bytes_foreign", ["C01", "C18"],
    "all 256x128x128 triples: third-party factories accept iff status>=0x80, bytes verbatim")
for _v in range(23):
    add("c01_structured_values_v%02d" % _v, "c01::structured_values", ["C01", "C18"],
        "every StructuredShortMessage value of variant #%d (all field values): bytes/raw/structured "
        "round trips are the identity" % _v, args="%d" % _v, cost=8)
add("c01_raw_structured_raw", "c01::raw_structured_raw", ["C01", "C18"],
    "all 2^21 valid triples: raw->structured->raw->structured idempotent, second raw canonical", cost=60)
add("c01_quarter_frame", "c01::quarter_frame", ["C01", "C18"],
    "all 128 data bytes and all 120 TimeCodeQuarterFrame values, both directions", cost=10)
add("c01_type_u8", "c01::type_u8", ["C01", "C02", "C18"],
    "all 256 u8 values and all 23 ShortMessageType values, both directions")
add("c01_twin", "c01::twin", ["C01"], "witness twin: a deliberately false claim must be refuted",
    expect="witness_fail")


# ------------------------------------------------------------------------------------------------

def all_harnesses():
    import gen
    return list(_STATIC) + gen.conversion_harnesses(REPO)


def by_name(name):
    for h in all_harnesses():
        if h.name == name:
            return h
    return None


def select(pid, tier, seed):
    out = []
    for h in all_harnesses():
        if pid not in h.props:
            continue
        if h.tier == "thorough" and tier != "thorough":
            continue
        if tier != "thorough" and h.seed_pick is not None and not h.seed_pick(seed):
            continue
        out.append(h)
    return out
