#!/usr/bin/env python3
"""Driver of the solver-based checks of helgoboss-midi (see /verif/DESIGN.md, section 2.1).

    ./check <PROPERTY> [--tier quick|thorough] [--jobs N] [--no-cache] [--only NAME ...]
    ./check <PROPERTY> --replay <path>
    ./check --list

Exit codes: 0 = property held on everything explored (possibly with KNOWN-FINDING lines),
1 = violation (a `VIOLATION property=<id> replay=<path>` line was printed, counterexample replayed
natively against the real code), 2 = inconclusive (machinery problem: build failure, timeout,
out-of-memory, vacuous harness, counterexample that does not reproduce).
"""
import hashlib
import json
import os
import re
import resource
import shutil
import subprocess
import sys
import threading
import time
from concurrent.futures import ThreadPoolExecutor

VERIF = os.path.dirname(os.path.dirname(os.path.abspath(__file__)))
sys.path.insert(0, os.path.join(VERIF, "lib"))
import registry  # noqa: E402
import gen  # noqa: E402

REPO = os.environ.get("VERIF_REPO", "/repo")
BUILD = os.environ.get("VERIF_BUILD", os.path.join(VERIF, ".build"))
CACHE = os.environ.get("VERIF_CACHE", os.path.join(VERIF, ".cache"))
GUARD = "helgoboss_midi_verif"
KANI_FLAGS = ["-Z", "stubbing", "-Z", "unstable-options", "--exact"]
# Concrete playback makes CBMC build traces (about +10 s per harness), so it is only switched on in
# a second run of the harnesses that produced a counterexample, to obtain its concrete values.
PLAYBACK_FLAGS = ["-Z", "concrete-playback", "--concrete-playback=print"]
MEM_LIMIT = int(os.environ.get("VERIF_MEM_GB", "40")) * (1 << 30)
# Memory-aware scheduling (62 GB machine, no swap): CBMC's memory grows with the program size, for
# which the measured time is a good proxy (measured peaks: 560 s -> 8 GB, 350 s -> 4.8 GB,
# 300 s -> 3 GB, 100 s -> 1 GB). The estimated GB of all running chunks stay below MEM_BUDGET_GB.
MEM_BUDGET_GB = float(os.environ.get("VERIF_MEM_BUDGET_GB", "46"))


def est_gb(cost):
    if cost >= 450:
        return 9.5
    if cost >= 320:
        return 6.0
    if cost >= 200:
        return 4.0
    if cost >= 100:
        return 2.5
    return 1.2


class MemBudget:
    def __init__(self, total):
        self.total = total
        self.used = 0.0
        self.cv = threading.Condition()

    def acquire(self, w):
        w = min(w, self.total)
        with self.cv:
            while self.used + w > self.total + 1e-9:
                self.cv.wait()
            self.used += w
        return w

    def release(self, w):
        with self.cv:
            self.used -= w
            self.cv.notify_all()


MEM = MemBudget(MEM_BUDGET_GB)
PRINT_LOCK = threading.Lock()


def log(msg):
    with PRINT_LOCK:
        print(msg, flush=True)


class Inconclusive(Exception):
    pass


# ------------------------------------------------------------------------------------------------
# hashing
# ------------------------------------------------------------------------------------------------

def hash_files(paths):
    h = hashlib.sha256()
    for p in sorted(paths):
        h.update(p.encode())
        h.update(b"\0")
        try:
            with open(p, "rb") as f:
                h.update(f.read())
        except OSError:
            h.update(b"<missing>")
        h.update(b"\0")
    return h.hexdigest()


def tree_files(root, exts=(".rs", ".toml", ".lock", ".in", ".py", ".json")):
    out = []
    for d, dirs, files in os.walk(root):
        dirs[:] = [x for x in dirs if x not in ("target", ".git", "generated", "__pycache__")]
        for f in files:
            if f.endswith(exts):
                out.append(os.path.join(d, f))
    return out


def repo_hash():
    files = tree_files(os.path.join(REPO, "src"))
    files += [os.path.join(REPO, "Cargo.toml"), os.path.join(REPO, "Cargo.lock")]
    return hash_files(files)


CORE_FILES = ["harness/src/nd.rs", "harness/src/dom.rs", "harness/src/oracle.rs",
              "harness/src/stubs.rs", "harness/src/lib.rs", "harness/Cargo.toml.in",
              "lib/gen.py"]
MODULE_DEPS = {"c03": ["c02"], "poll": ["pnm"], "c19": ["pnm"], "generated": ["numeric"]}
_core_hash = None


def harness_hash(h=None):
    """Hash of everything a harness's verdict depends on besides /repo: the shared core of the
    harness crate, the module holding its body (and the modules that one uses), the generated
    sources, its registry entry and the Kani flags."""
    global _core_hash
    if _core_hash is None:
        _core_hash = hash_files([os.path.join(VERIF, f) for f in CORE_FILES]) + \
            hashlib.sha256(" ".join(KANI_FLAGS).encode()).hexdigest()
    if h is None:
        return _core_hash
    mod = h.body.split("::")[0]
    mods = [mod] + MODULE_DEPS.get(mod, [])
    files = [os.path.join(VERIF, "harness", "src", m + ".rs") for m in mods if m != "generated"]
    extra = ""
    if mod == "generated":
        extra = hashlib.sha256(gen.conversion_source(REPO).encode()).hexdigest()
    entry = "|".join(str(x) for x in (h.name, h.body, h.args, h.cfg, h.expect, h.unwind, h.fast))
    return hashlib.sha256((_core_hash + hash_files(files) + extra + entry).encode()).hexdigest()


# ------------------------------------------------------------------------------------------------
# build directories
# ------------------------------------------------------------------------------------------------

CFGS = {
    # name: (features of helgoboss-midi, harness crate features, extra deps)
    "std": (['"std"'], ["cfg_std"], ""),
    "nostd": ([], ["cfg_nostd"], ""),
    "serde": (['"std"', '"serde"', '"serde_repr"'], ["cfg_std", "cfg_serde"],
              'serde = { version = "1.0", default-features = false }\n'),
}


def write_if_changed(path, content):
    try:
        with open(path) as f:
            if f.read() == content:
                return False
    except OSError:
        pass
    os.makedirs(os.path.dirname(path), exist_ok=True)
    with open(path, "w") as f:
        f.write(content)
    return True


def sync_tree(src, dst):
    """Copy src to dst, touching only files whose content changed (keeps cargo fingerprints)."""
    seen = set()
    for d, dirs, files in os.walk(src):
        dirs[:] = [x for x in dirs if x not in ("target", "generated")]
        rel = os.path.relpath(d, src)
        for f in files:
            s = os.path.join(d, f)
            t = os.path.normpath(os.path.join(dst, rel, f))
            seen.add(t)
            with open(s) as fh:
                write_if_changed(t, fh.read())
    for d, dirs, files in os.walk(dst):
        if "generated" in d.split(os.sep):
            continue
        for f in files:
            t = os.path.normpath(os.path.join(d, f))
            if t not in seen:
                os.remove(t)


def prepare_crate(cfg, slot):
    """Instantiate the harness crate for a configuration in a worker slot."""
    feats, hfeats, extra = CFGS[cfg]
    base = os.path.join(BUILD, cfg, "slot%d" % slot)
    crate = os.path.join(base, "crate")
    os.makedirs(crate, exist_ok=True)
    sync_tree(os.path.join(VERIF, "harness", "src"), os.path.join(crate, "src"))
    with open(os.path.join(VERIF, "harness", "Cargo.toml.in")) as f:
        toml = f.read()
    toml = toml.replace("@REPO@", REPO).replace("@MIDI_FEATURES@", ", ".join(feats))
    toml = toml.replace("@EXTRA_DEPS@", extra)
    toml = toml.replace("default = []", "default = [%s]" % ", ".join('"%s"' % x for x in hfeats))
    write_if_changed(os.path.join(crate, "Cargo.toml"), toml)
    lock = os.path.join(crate, "Cargo.lock")
    if not os.path.exists(lock):
        shutil.copy(os.path.join(REPO, "Cargo.lock"), lock)
    for name, content in gen.generate(cfg, REPO).items():
        write_if_changed(os.path.join(crate, "src", "generated", name), content)
    return base, crate


def cargo_env():
    env = dict(os.environ)
    env["CARGO_NET_OFFLINE"] = "true"
    env["RUSTFLAGS"] = "--cfg " + GUARD
    env.pop("RUSTUP_TOOLCHAIN", None)
    env["CARGO_TERM_COLOR"] = "never"
    return env


def limit_mem():
    try:
        resource.setrlimit(resource.RLIMIT_AS, (MEM_LIMIT, MEM_LIMIT))
    except Exception:
        pass


# ------------------------------------------------------------------------------------------------
# running Kani
# ------------------------------------------------------------------------------------------------

def full_name(h):
    return "generated::proofs::" + h.name


def gc_slot(target):
    """cargo keeps one unit directory per distinct harness-filter set (and per state of /repo); drop
    all but the newest few so that the worker slots do not fill the disk."""
    root = os.path.join(target, "kani", "x86_64-unknown-linux-gnu", "debug", "build")
    for pkg, keep in (("hmverif", 6), ("helgoboss-midi", 3)):
        d = os.path.join(root, pkg)
        try:
            subs = [os.path.join(d, x) for x in os.listdir(d)]
        except OSError:
            continue
        subs.sort(key=lambda x: os.path.getmtime(x), reverse=True)
        for old in subs[keep:]:
            shutil.rmtree(old, ignore_errors=True)


def run_chunk(cfg, slot, chunk, logdir, playback=False, focus=None):
    """Run one `cargo kani` process over a chunk of harnesses; returns {name: parsed result}."""
    base, crate = prepare_crate(cfg, slot)
    target = os.path.join(base, "target")
    gc_slot(target)
    cmd = ["cargo", "kani", "--target-dir", target] + KANI_FLAGS
    if playback:
        cmd += PLAYBACK_FLAGS
    if all(h.fast for h in chunk):
        cmd += ["--no-assertion-reach-checks", "--no-memory-safety-checks"]
    tmax = 0
    for h in chunk:
        cmd += ["--harness", full_name(h)]
        tmax += h.timeout
    per = max(h.timeout for h in chunk)
    cmd += ["--harness-timeout", "%ds" % per]
    os.makedirs(logdir, exist_ok=True)
    logpath = os.path.join(logdir, "chunk-%s-%d-%s%s%s.log" % (
        cfg, slot, chunk[0].name, "-playback" if playback else "", ("-focus-" + focus) if focus else ""))
    env = cargo_env()
    if focus:
        env["VERIF_FOCUS"] = focus
    else:
        env.pop("VERIF_FOCUS", None)
    t0 = time.time()
    with open(logpath, "w") as lf:
        lf.write("# " + " ".join(cmd) + "\n")
        lf.flush()
        try:
            p = subprocess.run(cmd, cwd=crate, env=env, stdout=lf, stderr=subprocess.STDOUT,
                               timeout=tmax + 900, preexec_fn=limit_mem)
            rc = p.returncode
        except subprocess.TimeoutExpired:
            rc = -9
    wall = time.time() - t0
    with open(logpath, errors="replace") as f:
        text = f.read()
    results = parse_log(text, chunk)
    for h in chunk:
        r = results.setdefault(h.name, {"status": "MISSING"})
        r["log"] = logpath
        r["chunk_wall_s"] = round(wall, 2)
        r["chunk_rc"] = rc
        if r["status"] == "MISSING":
            r["detail"] = compile_error_excerpt(text)
    return results


def compile_error_excerpt(text):
    lines = text.splitlines()
    out = []
    for i, l in enumerate(lines):
        if l.startswith("error") or "error[" in l or "error:" in l:
            out.extend(lines[i:i + 12])
            if len(out) > 60:
                break
    return "\n".join(out[:80])


CHECK_RE = re.compile(r"^Check (\d+): (\S+)\s*$")


def parse_log(text, chunk):
    """Split a cargo-kani log into per-harness sections and parse each."""
    results = {}
    parts = re.split(r"^Checking harness (\S+)\.\.\.\s*$", text, flags=re.M)
    # parts: [preamble, name1, body1, name2, body2, ...]
    for i in range(1, len(parts), 2):
        name = parts[i].split("::")[-1]
        body = parts[i + 1]
        results[name] = parse_harness(body)
    return results


def parse_harness(body):
    r = {"status": "ERROR", "checks": 0, "failed": [], "covers": {}, "unreachable": 0,
         "playback": [], "functions": [], "stats": {}}
    m = re.search(r"^VERIFICATION:- (\w+)", body, flags=re.M)
    if m:
        r["status"] = m.group(1)  # SUCCESSFUL | FAILED
    if re.search(r"CBMC (timed out|failed)|out of memory|std::bad_alloc|Status: ERROR", body, flags=re.I):
        r["status"] = "ERROR"
    if re.search(r"timed out", body, flags=re.I):
        r["status"] = "TIMEOUT"
    m = re.search(r"^Verification Time: ([0-9.]+)s", body, flags=re.M)
    if m:
        r["time_s"] = float(m.group(1))
    for key, pat in (("steps", r"size of program expression: (\d+) steps"),
                     ("vccs", r"Generated (\d+) VCC"),
                     ("variables", r"(\d+) variables, \d+ clauses"),
                     ("clauses", r"\d+ variables, (\d+) clauses")):
        mm = re.findall(pat, body)
        if mm:
            r["stats"][key] = int(mm[-1])
    for key, pat in (("symex_s", r"Runtime Symex: ([0-9.e+-]+)s"),
                     ("solver_s", r"Runtime decision procedure: ([0-9.e+-]+)s")):
        mm = re.findall(pat, body)
        if mm:
            r["stats"][key] = round(sum(float(x) for x in mm), 4)
    funcs = set()
    blocks = re.split(r"^Check \d+: ", body, flags=re.M)
    for b in blocks[1:]:
        lines = b.splitlines()
        cname = lines[0].strip()
        st = re.search(r"- Status: (\w+)", b)
        desc = re.search(r'- Description: "(.*)"\s*$', b, flags=re.M)
        loc = re.search(r"- Location: (.*)$", b, flags=re.M)
        status = st.group(1) if st else "?"
        d = unquote(desc.group(1)) if desc else ""
        location = loc.group(1).strip() if loc else ""
        fm = re.search(r"in function (.*)$", location)
        if fm and ("helgoboss_midi" in fm.group(1)):
            funcs.add(fm.group(1).strip())
        if ".cover." in cname:
            # several covers may share a description (generic instantiations); SATISFIED wins
            prev = r["covers"].get(d)
            if prev is None or status == "SATISFIED":
                r["covers"][d] = status
            continue
        r["checks"] += 1
        if status == "FAILURE":
            r["failed"].append({"check": cname, "description": d, "location": location})
        elif status == "UNREACHABLE":
            r["unreachable"] += 1
        elif status not in ("SUCCESS",):
            r["failed"].append({"check": cname, "description": d, "location": location,
                                "status": status})
    r["functions"] = sorted(funcs)
    # concrete playback tests: label + values
    for m in re.finditer(r"/// Check for `(\w+)`: \"([^\n]*)\"\n(.*?)let concrete_vals: Vec<Vec<u8>> = vec!\[(.*?)\n    \];",
                         body, flags=re.S):
        kind, label, _, vals = m.groups()
        label = unquote(label)
        values = []
        for vm in re.finditer(r"vec!\[([0-9, ]*)\]", vals):
            s = vm.group(1).strip()
            values.append([int(x) for x in s.split(",") if x.strip()] if s else [])
        r["playback"].append({"kind": kind, "label": label, "values": values})
    return r


def unquote(d):
    d = d.strip()
    while len(d) >= 2 and d[0] == '"' and d[-1] == '"':
        d = d[1:-1]
    return d


# ------------------------------------------------------------------------------------------------
# scheduling
# ------------------------------------------------------------------------------------------------

def load_costs():
    p = os.path.join(VERIF, "lib", "costs.json")
    try:
        with open(p) as f:
            return json.load(f)
    except Exception:
        return {}


def make_chunks(hs, jobs, costs):
    """Heavy harnesses alone, light ones grouped; largest first."""
    def cost(h):
        return float(costs.get(h.name, h.cost))
    hs = sorted(hs, key=cost, reverse=True)
    heavy = [h for h in hs if cost(h) >= 40]
    chunks = [[h] for h in heavy]
    for flag in (True, False):
        light = [h for h in hs if cost(h) < 40 and h.fast == flag]
        if not light:
            continue
        total = sum(cost(h) + 1.0 for h in light)
        target = max(30.0, total / max(1, jobs))
        nb = max(1, min(len(light), int(total / target + 0.999)))
        bins = [[] for _ in range(nb)]
        load = [0.0] * nb
        for h in light:
            i = load.index(min(load))
            bins[i].append(h)
            load[i] += cost(h) + 1.0
        chunks += [b for b in bins if b]
    return chunks


def run_all(hs, jobs, use_cache, logdir):
    """Run harnesses (with result cache); returns {name: result}."""
    rh = repo_hash()
    results = {}
    todo = []
    os.makedirs(CACHE, exist_ok=True)
    for h in hs:
        key = hashlib.sha256(("%s|%s" % (rh, harness_hash(h))).encode()).hexdigest()
        h.cache_key = key
        cp = os.path.join(CACHE, key + ".json")
        if use_cache and os.path.exists(cp):
            try:
                with open(cp) as f:
                    r = json.load(f)
                if r.get("status") in ("SUCCESSFUL", "FAILED"):
                    r["cache_hit"] = True
                    results[h.name] = r
                    continue
            except Exception:
                pass
        todo.append(h)
    by_cfg = {}
    for h in todo:
        by_cfg.setdefault(h.cfg, []).append(h)
    costs = load_costs()
    work = []
    for cfg, lst in by_cfg.items():
        for ch in make_chunks(lst, jobs, costs):
            work.append((cfg, ch))
    work.sort(key=lambda w: -sum(float(costs.get(h.name, h.cost)) for h in w[1]))
    slots = list(range(jobs))
    slot_lock = threading.Lock()

    def worker(item):
        cfg, ch = item
        w = MEM.acquire(max(est_gb(float(costs.get(h.name, h.cost))) for h in ch))
        with slot_lock:
            slot = slots.pop(0)
        try:
            t0 = time.time()
            res = run_chunk(cfg, slot, ch, logdir)
            log("  [%s slot %d] %d harness(es) in %.0fs: %s" % (
                cfg, slot, len(ch), time.time() - t0,
                " ".join("%s=%s" % (h.name, res[h.name]["status"]) for h in ch)[:400]))
            return res
        finally:
            with slot_lock:
                slots.append(slot)
                slots.sort()
            MEM.release(w)

    if work:
        with ThreadPoolExecutor(max_workers=jobs) as ex:
            for res in ex.map(worker, work):
                for name, r in res.items():
                    r["cache_hit"] = False
                    results[name] = r
    # phase 2 (concrete values for counterexamples) is done on demand by playback_batch()
    for h in todo:
        r = results.get(h.name)
        if r and r.get("status") in ("SUCCESSFUL", "FAILED"):
            with open(os.path.join(CACHE, h.cache_key + ".json"), "w") as f:
                json.dump(r, f)
    return results


def needs_playback(h, r):
    if h.expect == "witness_fail" or r.get("status") not in ("SUCCESSFUL", "FAILED"):
        return False
    if "playback" in r and r.get("playback_done"):
        return False
    return (h.expect == "pass" and bool(r.get("failed"))) or \
        (h.expect == "must_panic" and r.get("covers", {}).get("RETURNED") == "SATISFIED")


def playback_batch(hs, results, jobs, logdir, limit):
    """Phase 2: re-run up to `limit` failing harnesses (cheapest first) with concrete playback to get
    the counterexample values. Returns the harnesses processed."""
    costs = load_costs()
    need = [h for h in hs if needs_playback(h, results.get(h.name, {}))]
    need.sort(key=lambda h: float(costs.get(h.name, h.cost)))
    batch = need[:limit]
    if not batch:
        return []
    slots = list(range(jobs))
    slot_lock = threading.Lock()

    def worker2(h):
        # building traces roughly doubles CBMC's memory
        w = MEM.acquire(2 * est_gb(float(costs.get(h.name, h.cost))))
        with slot_lock:
            slot = slots.pop(0)
        try:
            res = run_chunk(h.cfg, slot, [h], logdir, playback=True, focus=results[h.name].get("focus"))
            return h, res.get(h.name, {})
        finally:
            with slot_lock:
                slots.append(slot)
                slots.sort()
            MEM.release(w)

    with ThreadPoolExecutor(max_workers=jobs) as ex:
        for h, r2 in ex.map(worker2, batch):
            results[h.name]["playback"] = r2.get("playback", [])
            results[h.name]["playback_done"] = True
            results[h.name]["playback_log"] = r2.get("log")
            ck = getattr(h, "cache_key", None)
            if ck and not results[h.name].get("focus"):
                with open(os.path.join(CACHE, ck + ".json"), "w") as f:
                    json.dump(results[h.name], f)
    return batch


def run_focus(hs, prop, jobs, logdir):
    """Re-run harnesses with assertions of other properties compiled out (no cache)."""
    results = {}
    slots = list(range(jobs))
    slot_lock = threading.Lock()

    def worker(h):
        with slot_lock:
            slot = slots.pop(0)
        try:
            res = run_chunk(h.cfg, slot, [h], logdir, playback=True, focus=prop)
            return h, res.get(h.name, {"status": "MISSING"})
        finally:
            with slot_lock:
                slots.append(slot)
                slots.sort()

    with ThreadPoolExecutor(max_workers=jobs) as ex:
        for h, r in ex.map(worker, hs):
            r["cache_hit"] = False
            r["playback_done"] = True
            results[h.name] = r
    return results


# ------------------------------------------------------------------------------------------------
# native replay
# ------------------------------------------------------------------------------------------------

_replayer_built = {}
_replayer_lock = threading.Lock()


def build_replayer(cfg, profile):
    """Build the native replayer for a configuration/profile; returns the binary path."""
    with _replayer_lock:
        key = (cfg, profile)
        if key in _replayer_built:
            return _replayer_built[key]
        base, crate = prepare_crate(cfg, 99)
        rdir = os.path.join(base, "replayer")
        os.makedirs(os.path.join(rdir, "src"), exist_ok=True)
        with open(os.path.join(VERIF, "harness", "replayer", "main.rs")) as f:
            write_if_changed(os.path.join(rdir, "src", "main.rs"), f.read())
        toml = (
            '[package]\nname = "hmreplay"\nversion = "0.0.0"\nedition = "2021"\n\n[workspace]\n\n'
            '[dependencies]\nhmverif = { path = "../crate" }\n\n'
            '[profile.dev]\noverflow-checks = true\ndebug = 0\n\n'
            '[profile.release]\ndebug = 0\n')
        write_if_changed(os.path.join(rdir, "Cargo.toml"), toml)
        lock = os.path.join(rdir, "Cargo.lock")
        if not os.path.exists(lock):
            shutil.copy(os.path.join(REPO, "Cargo.lock"), lock)
        cmd = ["cargo", "build", "--offline", "--target-dir", os.path.join(base, "native-target")]
        if profile == "release":
            cmd.append("--release")
        p = subprocess.run(cmd, cwd=rdir, env=cargo_env(), stdout=subprocess.PIPE,
                           stderr=subprocess.STDOUT, text=True)
        if p.returncode != 0:
            raise Inconclusive("native replayer does not build (%s/%s):\n%s" % (
                cfg, profile, p.stdout[-3000:]))
        binp = os.path.join(base, "native-target", "release" if profile == "release" else "debug",
                            "hmreplay")
        _replayer_built[key] = binp
        return binp


def native_replay(h, values, profile, focus=None, attribute=None):
    binp = build_replayer(h.cfg, profile)
    env = dict(os.environ)
    env.pop("VERIF_FOCUS", None)
    if focus:
        env["VERIF_FOCUS"] = focus
    cmd = [binp, h.name, json.dumps(values)]
    if attribute:
        cmd += ["--attribute", attribute, os.environ.get("VERIF_ATTRIB_DEPTH", "2")]
    p = subprocess.run(cmd, stdout=subprocess.PIPE,
                       stderr=subprocess.PIPE, text=True, timeout=900, env=env)
    for line in p.stdout.splitlines():
        if line.startswith("REPLAY "):
            try:
                return json.loads(line[len("REPLAY "):])
            except Exception:
                pass
    return {"outcome": "crash", "message": (p.stdout + p.stderr)[-500:], "rc": p.returncode}


# ------------------------------------------------------------------------------------------------
# evaluation
# ------------------------------------------------------------------------------------------------

TAG_RE = re.compile(r"^((?:C\d{2,3}[ ,/]*)+)")


def tags_of(description):
    m = TAG_RE.match(description.strip())
    if not m:
        return []
    return re.findall(r"C\d{2,3}", m.group(1))


def load_known():
    p = os.path.join(VERIF, "known_findings.json")
    try:
        with open(p) as f:
            return json.load(f)
    except Exception:
        return {"findings": [], "fixed": []}


def evaluate(prop, h, r):
    """Returns a list of issues: dicts with kind in {candidate, inconclusive, other_property}."""
    issues = []
    st = r.get("status")
    if st not in ("SUCCESSFUL", "FAILED"):
        issues.append({"kind": "inconclusive", "why": "harness %s: %s %s" % (
            h.name, st, (r.get("detail") or "")[:1500])})
        return issues
    covers = r.get("covers", {})
    if h.expect == "witness_fail":
        if st != "FAILED" or not r.get("failed"):
            issues.append({"kind": "inconclusive",
                           "why": "witness twin %s did not fail: the machinery is blind" % h.name})
        return issues
    if h.expect == "must_panic":
        ret = covers.get("RETURNED")
        if ret is None:
            issues.append({"kind": "inconclusive", "why": "%s: RETURNED cover missing" % h.name})
        elif ret == "SATISFIED":
            vals = [p for p in r.get("playback", []) if p["label"] == "RETURNED"]
            issues.append({"kind": "candidate", "mode": "returned",
                           "description": "%s: call returned although a panic is documented" % h.desc,
                           "values": vals[0]["values"] if vals else None})
        elif not r.get("failed"):
            issues.append({"kind": "inconclusive",
                           "why": "%s: vacuous must-panic harness (nothing panicked)" % h.name})
        # other witnesses
        for name, s in covers.items():
            if name != "RETURNED" and s != "SATISFIED":
                issues.append({"kind": "inconclusive", "why": "%s: witness '%s' is %s" % (h.name, name, s)})
        return issues
    # expect == pass
    for f in r.get("failed", []):
        tags = tags_of(f["description"])
        vals = None
        for p in r.get("playback", []):
            if p["label"] == f["description"]:
                vals = p["values"]
                break
        if vals is None:
            # Kani labels playback tests of failed checks with the description as well; fall
            # back to the first non-cover playback
            for p in r.get("playback", []):
                if p["kind"] != "cover":
                    vals = p["values"]
                    break
        item = {"mode": "panic", "description": f["description"], "location": f.get("location", ""),
                "values": vals, "tags": tags, "focus": r.get("focus"),
                "conformance": "[conformance]" in f["description"]}
        if f["description"].startswith("harness:"):
            issues.append({"kind": "inconclusive", "why": "%s: harness self-check failed: %s" % (
                h.name, f["description"])})
        elif tags and prop not in tags and prop != "C18":
            item["kind"] = "other_property"
            issues.append(item)
        elif prop == "C18" and tags and "C18" not in tags:
            item["kind"] = "other_property"
            issues.append(item)
        else:
            item["kind"] = "candidate"
            issues.append(item)
    if not r.get("failed"):
        for name, s in covers.items():
            if s != "SATISFIED":
                issues.append({"kind": "inconclusive",
                               "why": "%s: witness '%s' is %s (vacuous harness)" % (h.name, name, s)})
    return issues


def confirm(prop, h, issue):
    """Replay a candidate natively (dev and release). Returns (reproduced, record)."""
    rec = {"property": prop, "harness": h.name, "cfg": h.cfg, "body": h.body, "args": h.args,
           "focus": issue.get("focus"),
           "expect": h.expect, "description": issue["description"],
           "location": issue.get("location", ""), "values": issue.get("values"),
           "mode": issue["mode"], "native": {}}
    if issue.get("values") is None:
        rec["native"]["error"] = "Kani reported no concrete values for this failure"
        return False, rec
    reproduced = False
    if issue.get("conformance"):
        # A conformance assertion (real scanner vs. observer) failed. Which property's statement is
        # broken is decided natively: bounded search over concrete continuations from the divergent
        # state for one on which this property's clauses fail on the real outputs (attrib.rs).
        rec["mode"] = "conformance"
        for profile in ("dev", "release"):
            out = native_replay(h, issue["values"], profile, focus=issue.get("focus"), attribute=prop)
            rec["native"][profile] = out
            att = out.get("attribution", {})
            if out.get("outcome") == "panic" and att.get("found"):
                reproduced = True
                rec["attribution"] = att
                break
        if not reproduced:
            rec["conformance_only"] = True
        return reproduced, rec
    for profile in ("dev", "release"):
        out = native_replay(h, issue["values"], profile, focus=issue.get("focus"))
        rec["native"][profile] = out
        if issue["mode"] == "returned":
            if out.get("outcome") == "returned":
                reproduced = True
        else:
            if out.get("outcome") == "panic":
                reproduced = True
            if out.get("outcome") == "returned" and out.get("allocs", 0) > 0 and \
                    "heap allocation" in issue["description"]:
                reproduced = True
    return reproduced, rec


# ------------------------------------------------------------------------------------------------
# main
# ------------------------------------------------------------------------------------------------

def write_evidence(prop, tier, seed, hs, results, violations, known_lines, wall, notes):
    spec = registry.PROPS[prop]
    evaluations = 0
    obligations = 0
    discharged = 0
    nontrivial = 0
    samples = []
    functions = set()
    harness_rows = []
    solver_s = 0.0
    cache_hits = 0
    confirmed_expected = 0
    for h in hs:
        r = results.get(h.name, {})
        if r.get("status") in ("SUCCESSFUL", "FAILED"):
            evaluations += 1
        obligations += r.get("checks", 0)
        discharged += r.get("checks", 0) - len(r.get("failed", []))
        sat = [k for k, v in r.get("covers", {}).items() if v == "SATISFIED" and k != "RETURNED"]
        nontrivial += len(sat)
        if h.expect in ("must_panic", "witness_fail") and r.get("failed"):
            confirmed_expected += 1
            nontrivial += 1
        functions.update(r.get("functions", []))
        solver_s += r.get("time_s", 0.0) or 0.0
        cache_hits += 1 if r.get("cache_hit") else 0
        row = {"harness": h.name, "body": h.body + ("(%s)" % h.args if h.args else ""),
               "domain": h.desc, "expect": h.expect, "cfg": h.cfg, "unwind": h.unwind,
               "status": r.get("status"), "kani_checks": r.get("checks", 0),
               "failed_checks": len(r.get("failed", [])),
               "witnesses": r.get("covers", {}), "verification_time_s": r.get("time_s"),
               "cbmc": r.get("stats", {}), "cache_hit": bool(r.get("cache_hit"))}
        harness_rows.append(row)
        for p in r.get("playback", [])[:2]:
            if len(samples) < 12 and p["kind"] == "cover":
                samples.append({"harness": h.name, "witness": p["label"],
                                "satisfying_assignment_bytes": p["values"]})
    # written-out cases: the solver queries themselves (domain, expectation, satisfied witnesses, size)
    for row in harness_rows:
        if len(samples) >= 8:
            break
        if row["status"] in ("SUCCESSFUL", "FAILED"):
            samples.append({"solver_query": row["harness"], "domain": row["domain"],
                            "expected_outcome": row["expect"], "verdict": row["status"],
                            "witnesses_satisfied": [k for k, v in row["witnesses"].items() if v == "SATISFIED"],
                            "program_steps": row["cbmc"].get("steps"),
                            "sat_variables": row["cbmc"].get("variables"),
                            "sat_clauses": row["cbmc"].get("clauses")})
    if not samples:
        samples = [{"harness": h.name, "domain": h.desc} for h in hs[:5]]
    ev = {
        "property_id": prop,
        "tier": tier,
        "seed": seed,
        "level": "model_checking",
        "coverage": {
            "evaluations": evaluations,
            "distinct_nontrivial": nontrivial,
            "rule": ("one evaluation = one Kani/CBMC solver run of one harness over its whole symbolic "
                     "domain (decided by CaDiCaL, unwinding assertions on); distinct_nontrivial counts "
                     "the distinct reachability witnesses (kani::cover) that the solver showed "
                     "SATISFIABLE plus must-panic / witness-twin harnesses whose expected failure was "
                     "confirmed - i.e. the distinct non-vacuous regions of the domains"),
            "samples": samples,
            "obligations": obligations,
            "discharged": discharged,
            "checker_cmd": "cargo kani " + " ".join(KANI_FLAGS) + " --harness <name>",
            "trusted_base": ["rustc/Kani 0.68.0 MIR-to-goto translation", "CBMC 6.11.0", "CaDiCaL",
                             "harness oracles in /verif/harness/src/oracle.rs and observers"],
            "exhaustive": False,
            "explanation": spec.get("bounds", ""),
            "functions_encoded": sorted(functions),
            "harnesses": harness_rows,
            "bounds": spec.get("bounds", ""),
            "outside_bounds": spec.get("outside", ""),
            "solver_time_s": round(solver_s, 2),
            "cache_hits": cache_hits,
            "expected_failures_confirmed": confirmed_expected,
            "repo_tree_sha256": repo_hash(),
            "known_findings_reported": known_lines,
            "notes": notes,
        },
        "assumptions": spec.get("assumptions", []) + [
            "hook: mock Instant (src/verif_hooks.rs) under --cfg helgoboss_midi_verif",
            "stubs: std::alloc::{alloc,alloc_zeroed,realloc} replaced by failing assertions (-Z stubbing)",
            "kani::assume only restricts inputs to the documented domains (7-bit data bytes, valid newtype ranges, non-decreasing clock)",
        ],
        "wall_s": round(wall, 2),
        "violations": len(violations),
    }
    os.makedirs(os.path.join(VERIF, "evidence"), exist_ok=True)
    with open(os.path.join(VERIF, "evidence", prop + ".json"), "w") as f:
        json.dump(ev, f, indent=1)


def process_harnesses(prop, hs, results, known, known_lines, violations, inconclusive, conf_only, others):
    for h in hs:
        r = results.get(h.name, {"status": "MISSING"})
        for issue in evaluate(prop, h, r):
            if issue["kind"] == "inconclusive":
                inconclusive.append(issue["why"])
            elif issue["kind"] == "other_property":
                others.append("%s: failing assertion belongs to %s: %s" % (
                    h.name, ",".join(issue["tags"]), issue["description"]))
            else:
                try:
                    ok, rec = confirm(prop, h, issue)
                except Inconclusive as e:
                    inconclusive.append(str(e))
                    continue
                if not ok and rec.get("conformance_only"):
                    nat = rec["native"].get("dev", {})
                    if nat.get("outcome") != "panic":
                        inconclusive.append("conformance counterexample of %s did not reproduce natively: %s" % (
                            h.name, json.dumps(nat)[:400]))
                    else:
                        msg = ("%s: the real scanner deviates from the observer (%s; reproduced natively) but no "
                               "violation of %s was found on any continuation of up to %s further events: the "
                               "induction for %s is not closed on this tree" % (
                                   h.name, issue["description"][:90], prop,
                                   os.environ.get("VERIF_ATTRIB_DEPTH", "2"), prop))
                        if msg not in conf_only:
                            conf_only.append(msg)
                    continue
                if not ok:
                    inconclusive.append("counterexample of %s (%s) did not reproduce natively: %s" % (
                        h.name, issue["description"], json.dumps(rec["native"])[:600]))
                    continue
                kf = match_known(known, prop, h, issue)
                if kf is not None:
                    line = "KNOWN-FINDING: property=%s %s" % (prop, kf["what"])
                    if line not in known_lines:
                        known_lines.append(line)
                    continue
                hid = hashlib.sha256(json.dumps([h.name, issue["description"], issue.get("values")]
                                                ).encode()).hexdigest()[:10]
                path = os.path.join(VERIF, "replays", "%s-%s-%s.json" % (prop, h.name, hid))
                os.makedirs(os.path.dirname(path), exist_ok=True)
                rec["repo_tree_sha256"] = repo_hash()
                with open(path, "w") as f:
                    json.dump(rec, f, indent=1)
                violations.append((path, rec))


def structural_eq_check(hs):
    """The scanner induction compares states with the scanners' PartialEq, which must be the derived
    (structural) one. A hand-written impl would make equal-looking states behave differently, so it
    is looked for textually and reported as inconclusive (never as a violation)."""
    if not any(h.body.split("::")[0] in ("cc14", "pnm", "poll") for h in hs):
        return []
    import glob
    notes = []
    for f in glob.glob(os.path.join(REPO, "src", "*scanner.rs")):
        try:
            src = open(f).read()
        except OSError:
            continue
        if re.search(r"impl\s+(?:core::cmp::|std::cmp::)?PartialEq\b[^{]*\bfor\b", src):
            notes.append("%s contains a hand-written PartialEq impl: the state comparison of the "
                         "scanner induction is no longer known to be structural" % os.path.basename(f))
    return notes


def check_property(prop, tier, seed, jobs, use_cache, only):
    t0 = time.time()
    if prop not in registry.PROPS:
        log("unknown property " + prop)
        return 2
    hs = registry.select(prop, tier, seed)
    if only:
        hs = [h for h in hs if h.name in only]
    if not hs:
        log("no harnesses selected for %s" % prop)
        return 2
    log("== %s tier=%s seed=%d: %d harnesses, repo=%s" % (prop, tier, seed, len(hs), REPO))
    pre_notes = structural_eq_check(hs)
    logdir = os.path.join(BUILD, "logs", prop)
    shutil.rmtree(logdir, ignore_errors=True)   # logs of the previous run of this check
    results = run_all(hs, jobs, use_cache, logdir)
    violations = []
    inconclusive = []
    conf_only = []
    others = []
    known = load_known()
    known_lines = []
    # Kani assumes an assertion after checking it, so a failing assertion that belongs to another
    # property can mask this property's own assertions further down the same harness. Such
    # harnesses are re-run with VERIF_FOCUS=<this property>: assertions of other properties are
    # then compiled out, and the verdict is about this property alone.
    masked = []
    for h in hs:
        r = results.get(h.name, {"status": "MISSING"})
        iss = evaluate(prop, h, r)
        if any(i["kind"] == "other_property" for i in iss):
            masked.append(h)
    if masked:
        log("  %d harness(es) fail on assertions of other properties; re-running them focused on %s" % (
            len(masked), prop))
        fres = run_focus(masked, prop, jobs, logdir)
        for h in masked:
            fr = fres.get(h.name)
            if fr:
                fr["focus"] = prop
                fr["unfocused_failures"] = [f["description"] for f in results[h.name].get("failed", [])]
                results[h.name] = fr
    max_replays = int(os.environ.get("VERIF_MAX_REPLAYS", "6"))
    processed = set()
    unreplayed = []
    while True:
        # harnesses without a counterexample, or whose counterexample values are available
        ready = []
        for h in hs:
            if h.name in processed:
                continue
            r = results.get(h.name, {"status": "MISSING"})
            if needs_playback(h, r):
                continue
            ready.append(h)
        for h in ready:
            processed.add(h.name)
        process_harnesses(prop, ready, results, known, known_lines, violations, inconclusive, conf_only, others)
        remaining = [h for h in hs if h.name not in processed]
        if not remaining:
            break
        if violations:
            # one replayed violation decides the check; the other failing harnesses are listed only
            unreplayed = [h.name for h in remaining]
            break
        playback_batch(remaining, results, jobs, logdir, max_replays)
    if unreplayed:
        log("NOTE %d further harness(es) also fail and were not replayed: %s" % (
            len(unreplayed), " ".join(unreplayed[:12])))
    for line in known_lines:
        log(line)
    for o in others:
        log("NOTE " + o)
    # deviations from the observer that could not be attributed to this property make the run
    # inconclusive (the induction is not closed) unless a real violation was found anyway
    if conf_only and not violations:
        inconclusive.extend(conf_only[:5])
    for path, rec in violations:
        log("  violated: %s [%s] values=%s" % (rec["description"], rec["harness"], rec["values"]))
        nat = rec["native"].get("dev", {})
        log("  native(dev): %s %s" % (nat.get("outcome"), (nat.get("message") or "")[:300]))
        if rec.get("attribution"):
            log("  attributed to %s by the continuation: %s => %s" % (
                prop, " ; ".join(rec["attribution"].get("trace", [])), rec["attribution"].get("clause", "")))
        log("VIOLATION property=%s replay=%s" % (prop, path))
    for w in inconclusive:
        log("INCONCLUSIVE " + w)
    inconclusive.extend(pre_notes)
    for w in pre_notes:
        log("INCONCLUSIVE " + w)
    wall = time.time() - t0
    notes = {"inconclusive": inconclusive, "other_property_failures": others}
    write_evidence(prop, tier, seed, hs, results, violations, known_lines, wall, notes)
    summary = "%s: %d harnesses, %d violations, %d inconclusive, %.0fs" % (
        prop, len(hs), len(violations), len(inconclusive), wall)
    log(summary)
    if violations:
        return 1
    if inconclusive:
        return 2
    return 0


def match_known(known, prop, h, issue):
    for k in known.get("findings", []):
        if k.get("property") != prop:
            continue
        if k.get("harness") and not re.fullmatch(k["harness"], h.name):
            continue
        if k.get("description") and k["description"] not in issue["description"]:
            continue
        return k
    return None


def do_replay(prop, path):
    with open(path) as f:
        rec = json.load(f)
    h = registry.by_name(rec["harness"])
    if h is None:
        log("unknown harness in replay file: %s" % rec["harness"])
        return 2
    reproduced = False
    for profile in ("dev", "release"):
        out = native_replay(h, rec["values"], profile, focus=rec.get("focus"),
                            attribute=rec.get("property") if rec.get("mode") == "conformance" else None)
        log("replay %s [%s]: %s" % (h.name, profile, json.dumps(out)))
        if rec.get("mode") == "conformance":
            reproduced |= out.get("outcome") == "panic" and out.get("attribution", {}).get("found", False)
        elif rec.get("mode") == "returned":
            reproduced |= out.get("outcome") == "returned"
        else:
            reproduced |= out.get("outcome") == "panic"
    if reproduced:
        log("VIOLATION property=%s replay=%s" % (rec.get("property", prop), path))
        return 1
    log("replay does not reproduce on the current tree")
    return 0


def warmup(jobs):
    """Build the dependency artefacts in the worker slots (parallel), once after a fresh restore."""
    plan = [("std", s) for s in range(jobs)] + [("nostd", s) for s in range(min(jobs, 6))] + \
           [("serde", s) for s in range(min(jobs, 6))]

    def one(item):
        cfg, slot = item
        hs = [h for h in registry.all_harnesses() if h.cfg == cfg]
        if not hs:
            return
        base, crate = prepare_crate(cfg, slot)
        cmd = ["cargo", "kani", "--target-dir", os.path.join(base, "target")] + KANI_FLAGS + [
            "--only-codegen", "--harness", full_name(hs[0])]
        subprocess.run(cmd, cwd=crate, env=cargo_env(), stdout=subprocess.DEVNULL,
                       stderr=subprocess.DEVNULL)

    with ThreadPoolExecutor(max_workers=jobs) as ex:
        list(ex.map(one, plan))
    for cfg in ("std",):
        for profile in ("dev", "release"):
            try:
                build_replayer(cfg, profile)
            except Inconclusive as e:
                log(str(e))
    return 0


def main(argv):
    import argparse
    ap = argparse.ArgumentParser()
    ap.add_argument("prop", nargs="?")
    ap.add_argument("--tier", default=os.environ.get("VERIF_TIER", "quick"))
    ap.add_argument("--jobs", type=int, default=int(os.environ.get("VERIF_JOBS", "16")))
    ap.add_argument("--no-cache", action="store_true")
    ap.add_argument("--only", nargs="*")
    ap.add_argument("--replay")
    ap.add_argument("--list", action="store_true")
    ap.add_argument("--warmup", action="store_true")
    a = ap.parse_args(argv)
    try:
        seed = int(os.environ.get("VERIF_SEED", "0"))
    except ValueError:
        seed = 0
    if a.warmup:
        return warmup(a.jobs)
    if a.list:
        for h in registry.all_harnesses():
            print(h.name, h.cfg, h.expect, h.tier, ",".join(h.props))
        return 0
    if a.replay:
        return do_replay(a.prop, a.replay)
    if a.tier not in ("quick", "thorough"):
        a.tier = "quick"
    try:
        return check_property(a.prop, a.tier, seed, a.jobs, not a.no_cache, a.only)
    except Inconclusive as e:
        log("INCONCLUSIVE " + str(e))
        return 2


if __name__ == "__main__":
    sys.exit(main(sys.argv[1:]))
