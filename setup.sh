#!/bin/sh
# Offline setup: nothing to install. Pre-builds the Kani dependency artefacts of the harness crate
# for every worker slot so that the first check does not pay for them.
here="$(cd "$(dirname "$0")" && pwd)"
cd "$here" || exit 1
python3 lib/driver.py --warmup || true
exit 0
