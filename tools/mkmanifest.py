#!/usr/bin/env python3
"""Writes /verif/MANIFEST.json from the registry (one check per claimed property)."""
import json, os, subprocess, sys
here = os.path.dirname(os.path.dirname(os.path.abspath(__file__)))
sys.path.insert(0, os.path.join(here, "lib"))
import registry
props = [json.loads(l) for l in open(os.path.join(here, "properties.jsonl"))]
hook = subprocess.check_output(["git", "-C", "/repo", "log", "--format=%h", "--grep", "^verif hook"], text=True).split()
TECH = {
 "C01": "Kani/CBMC bounded model checking: round-trip equalities over fully symbolic byte triples and enum values, SAT-decided",
 "C02": "Kani/CBMC: differential check of every accessor against an independent MIDI 1.0 table over all valid triples",
 "C03": "Kani/CBMC: observation-record equality across four ShortMessage implementations over all valid triples",
 "C04": "Kani/CBMC: per-impl harnesses generated from /repo's macro invocations, each over the entire source type; must-panic covers; two feature configurations",
 "C05": "Kani/CBMC: generated conversion harnesses (exactness in i128/u128), symbolic ASCII strings for FromStr, Display into a stack buffer",
 "C06": "Kani/CBMC: constructor output vs. oracle bytes over all arguments; must-panic covers for category mismatches and shorthand range errors",
 "C07": "Kani/CBMC: encoder vs. oracle over all messages; inversion from every scanner state (all 16 channels symbolic) + the one-step closure lemma (every step from such a state leads to such a state) that makes those states all reachable states",
 "C08": "Kani/CBMC one-step induction: symbolic abstract observer state concretised through the public API, post-state compared via derived PartialEq",
 "C09": "Kani/CBMC: encoder slots vs. oracle over the full symbolic product",
 "C10": "Kani/CBMC: encode-then-feed from every family state of the scanner + the one-step closure lemma; literal running forms",
 "C11": "Kani/CBMC one-step induction with an observer taken from the property text; literal bounded histories as cross-check",
 "C12": "Kani/CBMC one-step induction (feed/poll) with symbolic clock and timeout via the mock-Instant hook; literal grammar sentences; encode/feed/poll round trip",
 "C13": "Kani/CBMC poll step with symbolic now/arrival/timeout over the whole Duration domain; two-instant feed comparison",
 "C14": "Kani/CBMC step with provenance clauses asserted on (pre-observer, event, real outputs)",
 "C15": "Kani/CBMC: frame condition of the inductive step (only the addressed channel's observer advances) + literal interleavings",
 "C16": "Kani/CBMC: non-contributing step leaves the derived-PartialEq state equal, from every family state; predicates over all 128 numbers",
 "C17": "Kani/CBMC: reset()==new()==default() from every family state + the one-step closure lemma of the CC14 and (N)RPN scanners; copy independence",
 "C18": "Kani/CBMC with std::alloc::{alloc,alloc_zeroed,realloc} stubbed to failing assertions (-Z stubbing) + Kani's panic/overflow checks over all harness domains",
 "C19": "Kani/CBMC: symbolic token streams through the real serde Deserialize/Serialize impls (features serde+serde_repr)",
}
m = {
 "version": 1,
 "setup_cmd": "./setup.sh",
 "hooks": {
  "guard": "helgoboss_midi_verif",
  "enable": "RUSTFLAGS=\"--cfg helgoboss_midi_verif\" (set by ./check for cargo kani and for the native replayer)",
  "baseline_off_cmd": "cd /repo && cargo test --workspace --no-fail-fast --offline",
  "source_commits": hook,
  "add_only": True,
 },
 "engines": [{
  "name": "kani",
  "path": "/verif/check",
  "serves_properties": sorted(registry.PROPS),
  "kind_free_text": "Kani 0.68.0 / CBMC 6.11.0 / CaDiCaL: bounded model checking of the real crate's MIR, recompiled from /repo on every run; harness crate /verif/harness (generic bodies) + /verif/lib (driver, registry, generators); native replayer for counterexamples",
 }],
 "checks": [],
 "not_applicable": [],
 "notes": "All 19 properties are decided by the same engine. Exit 2 (inconclusive) is used for machinery problems and is never accompanied by a VIOLATION line. See DESIGN.md.",
}
for p in props:
    pid = p["id"]
    if pid not in registry.PROPS:
        m["not_applicable"].append({"property_id": pid, "reason": "no check registered"})
        continue
    spec = registry.PROPS[pid]
    m["checks"].append({
     "property_id": pid,
     "quick_cmd": "./check %s --tier quick" % pid,
     "thorough_cmd": "./check %s --tier thorough" % pid,
     "evidence_file": "/verif/evidence/%s.json" % pid,
     "replay_cmd_template": "./check %s --replay {path}" % pid,
     "engine": "kani",
     "level_claimed": {
      "category": "model_checking",
      "text": "Bounded model checking of the compiled crate: within the stated bounds the SAT solver shows the assertions hold for every input / abstract state / time value, or returns a counterexample that is replayed natively before it is reported. Bounds: " + spec["bounds"],
      "design_ref": "DESIGN.md section 5 (%s)" % pid,
     },
     "level_note": "Trusted: rustc + Kani MIR-to-goto translation, CBMC, CaDiCaL, the harness oracles/observers, derived PartialEq of the scanners being structural. Outside the claim: " + spec["outside"],
     "technique": TECH[pid],
    })
json.dump(m, open(os.path.join(here, "MANIFEST.json"), "w"), indent=1)
print(len(m["checks"]), "checks,", len(m["not_applicable"]), "not applicable")
