#!/usr/bin/env python3
"""Prints the markdown table 'which checks catch which seeded changes' from seeded/*/meta.json."""
import json, os, glob
here = os.path.dirname(os.path.dirname(os.path.abspath(__file__)))
print("| seeded change | target | what it breaks | needs to manifest | detected by (quick tier) |")
print("|---|---|---|---|---|")
for mp in sorted(glob.glob(os.path.join(here, "seeded", "*", "meta.json"))):
    m = json.load(open(mp))
    det = m.get("detection", {}).get("quick", {})
    cells = []
    for prop, r in det.items():
        if r.get("violations", 0) > 0:
            first = (r.get("first") or [""])[0]
            import re
            mm = re.search(r"\[([a-z0-9_]+)\] values=", first)
            h = mm.group(1) if mm else ""
            cells.append("**%s** VIOLATION (%s)" % (prop, h))
        else:
            cells.append("%s exit %s" % (prop, r.get("exit")))
    print("| %s | %s | %s | %s | %s |" % (m["id"], m["property"], m["breaks"], m["needs_to_manifest"],
                                        "; ".join(cells) or "not run yet"))
