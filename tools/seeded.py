#!/usr/bin/env python3
"""Applies each seeded change under /verif/seeded/<id>/ to /repo, runs the checks named in its
meta.json (quick tier unless --tier given), records which of them report a violation, and undoes
the change straight afterwards (git -C /repo checkout -- .). Never commits anything to /repo.

    tools/seeded.py [--tier quick|thorough] [ID ...]
"""
import json, os, subprocess, sys, time
here = os.path.dirname(os.path.dirname(os.path.abspath(__file__)))
args = sys.argv[1:]
tier = "quick"
if "--tier" in args:
    i = args.index("--tier")
    tier = args[i + 1]
    del args[i:i + 2]
ids = args or sorted(os.listdir(os.path.join(here, "seeded")))
summary = {}
for sid in ids:
    d = os.path.join(here, "seeded", sid)
    mp = os.path.join(d, "meta.json")
    if not os.path.exists(mp):
        continue
    meta = json.load(open(mp))
    st = subprocess.run(["git", "-C", "/repo", "status", "--porcelain", "--untracked-files=no"],
                        capture_output=True, text=True).stdout.strip()
    if st:
        print("refusing: /repo has local modifications:\n" + st)
        sys.exit(2)
    r = subprocess.run(["git", "-C", "/repo", "apply", os.path.join(d, "patch.diff")],
                       capture_output=True, text=True)
    if r.returncode != 0:
        print(sid, "patch does not apply:", r.stderr[:300])
        summary[sid] = {"error": "patch does not apply"}
        continue
    res = {}
    try:
        for prop in meta.get("checks", [meta["property"]]):
            t0 = time.time()
            p = subprocess.run([os.path.join(here, "check"), prop, "--tier", tier],
                               capture_output=True, text=True, cwd=here)
            viol = [l for l in p.stdout.splitlines() if l.startswith("VIOLATION")]
            what = [l.strip() for l in p.stdout.splitlines() if l.strip().startswith("violated:")]
            res[prop] = {"exit": p.returncode, "violations": len(viol), "first": what[:2],
                         "wall_s": round(time.time() - t0)}
            print(sid, prop, "exit", p.returncode, len(viol), "violation line(s)", what[:1], flush=True)
    finally:
        subprocess.run(["git", "-C", "/repo", "checkout", "--", "."])
    summary[sid] = res
    meta.setdefault("detection", {})[tier] = res
    json.dump(meta, open(mp, "w"), indent=1)
print(json.dumps(summary, indent=1))
