#!/usr/bin/env python3
"""Refresh lib/costs.json (scheduling hints only) from the evidence files of the last runs."""
import glob, json, os
here = os.path.dirname(os.path.dirname(os.path.abspath(__file__)))
p = os.path.join(here, "lib", "costs.json")
try:
    costs = json.load(open(p))
except Exception:
    costs = {}
for f in glob.glob(os.path.join(here, "evidence", "*.json")):
    e = json.load(open(f))
    for r in e["coverage"].get("harnesses", []):
        t = r.get("verification_time_s")
        if t and not r.get("cache_hit"):
            costs[r["harness"]] = round(max(t, 1.0), 1)
json.dump(costs, open(p, "w"), indent=0, sort_keys=True)
print(len(costs), "costs")
