#!/bin/sh
# Like run_all.sh but ignores the result cache (every harness is decided again).
tier=${1:-quick}
cd "$(dirname "$0")/.." || exit 1
mkdir -p .build/runall
for p in C01 C02 C03 C04 C05 C06 C07 C08 C09 C10 C11 C12 C13 C14 C15 C16 C17 C18 C19; do
  start=$(date +%s)
  ./check $p --tier $tier --no-cache > .build/runall/$p.$tier.nocache.log 2>&1
  rc=$?
  echo "$p rc=$rc $(( $(date +%s) - start ))s $(tail -1 .build/runall/$p.$tier.nocache.log)"
done
