#!/usr/bin/env python3
"""Replaces the table of section 10.4 of DESIGN.md by the output of tools/seeded_table.py."""
import os, subprocess, re
here = os.path.dirname(os.path.dirname(os.path.abspath(__file__)))
tab = subprocess.run([os.path.join(here, "tools", "seeded_table.py")], capture_output=True, text=True).stdout
p = os.path.join(here, "DESIGN.md")
s = open(p).read()
i = s.index("| seeded change | target |")
j = i
lines = s[i:].split("\n")
n = 0
for l in lines:
    if l.startswith("|"):
        n += len(l) + 1
    else:
        break
s = s[:i] + tab + s[i + n:]
open(p, "w").write(s)
