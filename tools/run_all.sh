#!/bin/sh
# Runs every property's check (default: quick) in sequence; logs under /verif/.build/runall/
tier=${1:-quick}
cd "$(dirname "$0")/.." || exit 1
mkdir -p .build/runall
for p in C01 C02 C03 C04 C05 C06 C07 C08 C09 C10 C11 C12 C13 C14 C15 C16 C17 C18 C19; do
  start=$(date +%s)
  ./check $p --tier $tier > .build/runall/$p.$tier.log 2>&1
  rc=$?
  echo "$p rc=$rc $(( $(date +%s) - start ))s $(tail -1 .build/runall/$p.$tier.log)"
done
