//! C18 - witnesses that the allocation stubs bite: each of these must be refuted by the solver
//! (reaching `std::alloc::{alloc, alloc_zeroed, realloc}` is a failed check).
use crate::nd::Nd;

pub fn w_box<N: Nd>(nd: &mut N) {
    let b = Box::new(nd.u8());
    core::hint::black_box(&b);
}

pub fn w_vec<N: Nd>(nd: &mut N) {
    let mut v: Vec<u8> = Vec::new();
    v.push(nd.u8());
    core::hint::black_box(&v);
}

pub fn w_string<N: Nd>(nd: &mut N) {
    let s = String::from(if nd.bool() { "a" } else { "b" });
    core::hint::black_box(&s);
}

/// A (hypothetical) allocating encoder must be caught the same way: collecting the two short
/// messages of a 14-bit Control Change message into a Vec.
pub fn w_vec_of_messages<N: Nd>(nd: &mut N) {
    use helgoboss_midi::*;
    let m = ControlChange14BitMessage::new(crate::dom::chv(nd.u8_le(15)), crate::dom::cnv(nd.u8_le(31)), crate::dom::u14v(nd.u16_le(16383)));
    let a: [RawShortMessage; 2] = m.to_short_messages();
    let v = a.to_vec();
    core::hint::black_box(&v);
}
