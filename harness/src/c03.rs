//! C03 - all ShortMessage implementations are observationally equivalent.
use crate::c02::triple_with_hi;
use crate::dom::*;
use crate::check;
use crate::nd::Nd;
use crate::oracle as o;
use crate::witness;
use helgoboss_midi::*;

/// Every trait method gives the same answer for raw, structured-from-raw and the two
/// third-party implementors; structured may only differ in the reported bytes (canonical).
pub fn obs_equal<N: Nd>(nd: &mut N, hi: u8) {
    let t = triple_with_hi(nd, hi);
    let r = raw_of(t);
    let s = r.to_structured();
    let f = Foreign::from_bytes(bytes_of(t)).ok().unwrap();
    let fb = ForeignBytes::from_bytes(bytes_of(t)).ok().unwrap();
    let or = observe(&r);
    let of = observe(&f);
    let ofb = observe(&fb);
    let mut os = observe(&s);
    check!(or == of, "C03 raw and byte-getter-only implementor agree on every method");
    check!(or == ofb, "C03 raw and to_bytes-overriding implementor agree on every method");
    let c = o::canon(t.0, t.1, t.2);
    check!(os.bytes == c && os.to_bytes == c, "C03 structured reports the canonical bytes");
    os.bytes = or.bytes;
    os.to_bytes = or.to_bytes;
    check!(os == or, "C03 structured agrees with raw on every method except information-free bytes");
    witness!(nd, true, "observed");
}

fn b3<M: ShortMessage>(m: &M) -> (u8, u8, u8) {
    (m.status_byte(), m.data_byte_1().get(), m.data_byte_2().get())
}

/// Conversions commute: converting `a` to implementation B (to_other / from_other /
/// to_structured) gives exactly the B value built directly from the bytes `a` reports.
/// `src`: 0 raw, 1 structured, 2 foreign, 3 foreign-bytes.
pub fn conversions<N: Nd>(nd: &mut N, hi: u8, src: u8) {
    let t = triple_with_hi(nd, hi);
    match src {
        0 => conv_from(&raw_of(t), t),
        1 => {
            let s = StructuredShortMessage::from_bytes(bytes_of(t)).ok().unwrap();
            conv_from(&s, o::canon(t.0, t.1, t.2))
        }
        2 => conv_from(&Foreign::from_bytes(bytes_of(t)).ok().unwrap(), t),
        _ => conv_from(&ForeignBytes::from_bytes(bytes_of(t)).ok().unwrap(), t),
    }
    witness!(nd, true, "converted");
}

fn conv_from<A: ShortMessage>(a: &A, reported: (u8, u8, u8)) {
    check!(b3(a) == reported, "C03 source reports the expected bytes");
    let direct_raw = raw_of(reported);
    let direct_s = StructuredShortMessage::from_bytes(bytes_of(reported)).ok().unwrap();
    let direct_f = Foreign::from_bytes(bytes_of(reported)).ok().unwrap();
    let direct_fb = ForeignBytes::from_bytes(bytes_of(reported)).ok().unwrap();
    let r: RawShortMessage = a.to_other();
    check!(r == direct_raw, "C03 to_other::<Raw> commutes");
    check!(RawShortMessage::from_other(a) == direct_raw, "C03 Raw::from_other commutes");
    let s: StructuredShortMessage = a.to_other();
    check!(s == direct_s, "C03 to_other::<Structured> commutes");
    check!(StructuredShortMessage::from_other(a) == direct_s, "C03 Structured::from_other commutes");
    check!(a.to_structured() == direct_s, "C03 to_structured commutes");
    let f: Foreign = a.to_other();
    check!(f == direct_f, "C03 to_other::<Foreign> commutes");
    check!(Foreign::from_other(a) == direct_f, "C03 Foreign::from_other commutes");
    let fb: ForeignBytes = a.to_other();
    check!(fb == direct_fb, "C03 to_other::<ForeignBytes> commutes");
    check!(ForeignBytes::from_other(a) == direct_fb, "C03 ForeignBytes::from_other commutes");
    // a second hop changes nothing observable
    let back: RawShortMessage = s.to_other();
    let c = o::canon(reported.0, reported.1, reported.2);
    check!(b3(&back) == c, "C03 two-hop conversion through structured yields the canonical bytes");
}
