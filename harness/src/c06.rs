//! C06 - factory constructors build exactly the message they describe.
use crate::dom::*;
use crate::check;
use crate::nd::Nd;
use crate::oracle as o;
use crate::{returned, witness};
use helgoboss_midi::test_util as tu;
use helgoboss_midi::*;

fn b3<M: ShortMessage>(m: &M) -> (u8, u8, u8) {
    (m.status_byte(), m.data_byte_1().get(), m.data_byte_2().get())
}

/// The message reports `bytes` (Raw: verbatim; Structured: canonical form of them) and every
/// accessor follows from them.
fn check_built<M: ShortMessage>(m: &M, bytes: (u8, u8, u8), structured: bool) {
    let reported = if structured {
        o::canon(bytes.0, bytes.1, bytes.2)
    } else {
        bytes
    };
    check!(b3(m) == reported, "C06 constructor places type, channel and data bytes as described");
    check!(observe(m) == expected_obs(bytes, reported), "C06 accessors return exactly the arguments");
}

/// Three-argument channel constructors: note_on, note_off, control_change,
/// polyphonic_key_pressure. `which` 0..=3, `structured` selects the implementation.
pub fn channel3<N: Nd>(nd: &mut N, which: u8, structured: bool) {
    let c = nd.u8_le(15);
    let a = nd.u8_le(127);
    let b = nd.u8_le(127);
    let (ty, kind) = match which {
        0 => (0x90u8, 0u8),
        1 => (0x80, 1),
        2 => (0xB0, 2),
        _ => (0xA0, 3),
    };
    fn build<T: ShortMessageFactory>(kind: u8, c: u8, a: u8, b: u8) -> T {
        match kind {
            0 => T::note_on(chv(c), knv(a), u7v(b)),
            1 => T::note_off(chv(c), knv(a), u7v(b)),
            2 => T::control_change(chv(c), cnv(a), u7v(b)),
            _ => T::polyphonic_key_pressure(chv(c), knv(a), u7v(b)),
        }
    }
    let bytes = (ty | c, a, b);
    if structured {
        let m: StructuredShortMessage = build(kind, c, a, b);
        check_built(&m, bytes, true);
        check_args3(&m, kind, c, a, b);
    } else {
        let m: RawShortMessage = build(kind, c, a, b);
        check_built(&m, bytes, false);
        check_args3(&m, kind, c, a, b);
    }
    witness!(nd, c == 15 && a == 127 && b == 127, "maximal arguments");
}

fn check_args3<M: ShortMessage>(m: &M, kind: u8, c: u8, a: u8, b: u8) {
    check!(m.channel().map(|x| x.get()) == Some(c), "C06 channel argument returned");
    match kind {
        0 | 1 => {
            check!(m.key_number().map(|x| x.get()) == Some(a), "C06 key number argument returned");
            check!(m.velocity().map(|x| x.get()) == Some(b), "C06 velocity argument returned");
            check!(
                type_byte_of(m.r#type()) == if kind == 0 { 0x90 } else { 0x80 },
                "C06 named type"
            );
        }
        2 => {
            check!(m.controller_number().map(|x| x.get()) == Some(a), "C06 controller number argument returned");
            check!(m.control_value().map(|x| x.get()) == Some(b), "C06 control value argument returned");
            check!(type_byte_of(m.r#type()) == 0xB0, "C06 named type");
        }
        _ => {
            check!(m.key_number().map(|x| x.get()) == Some(a), "C06 key number argument returned");
            check!(m.pressure_amount().map(|x| x.get()) == Some(b), "C06 pressure amount argument returned");
            check!(type_byte_of(m.r#type()) == 0xA0, "C06 named type");
        }
    }
}

/// program_change, channel_pressure, pitch_bend_change.
pub fn channel2<N: Nd>(nd: &mut N, structured: bool) {
    let c = nd.u8_le(15);
    let a = nd.u8_le(127);
    let v = nd.u16_le(16383);
    fn go<T: ShortMessageFactory>(c: u8, a: u8, v: u16, structured: bool) {
        let m = T::program_change(chv(c), u7v(a));
        check_built(&m, (0xC0 | c, a, 0), structured);
        check!(m.program_number().map(|x| x.get()) == Some(a), "C06 program number argument returned");
        check!(m.channel().map(|x| x.get()) == Some(c), "C06 channel argument returned");
        let m = T::channel_pressure(chv(c), u7v(a));
        check_built(&m, (0xD0 | c, a, 0), structured);
        check!(m.pressure_amount().map(|x| x.get()) == Some(a), "C06 pressure amount argument returned");
        let m = T::pitch_bend_change(chv(c), u14v(v));
        check_built(&m, (0xE0 | c, o::lo7(v), o::hi7(v)), structured);
        check!(m.pitch_bend_value().map(|x| x.get()) == Some(v), "C06 pitch bend argument returned (low 7 bits in data byte 1, high 7 bits in data byte 2)");
    }
    if structured {
        go::<StructuredShortMessage>(c, a, v, true)
    } else {
        go::<RawShortMessage>(c, a, v, false)
    }
    witness!(nd, v == 16383, "maximal 14-bit value");
    witness!(nd, v == 128, "14-bit value 128");
}

/// System constructors with arguments: time_code_quarter_frame, song_position_pointer,
/// song_select; and all argument-less ones.
pub fn system<N: Nd>(nd: &mut N, structured: bool) {
    let a = nd.u8_le(127);
    let v = nd.u16_le(16383);
    let frame = any_quarter_frame(nd);
    fn go<T: ShortMessageFactory>(a: u8, v: u16, frame: TimeCodeQuarterFrame, structured: bool) {
        let fb: U7 = frame.into();
        let m = T::time_code_quarter_frame(frame);
        check_built(&m, (0xF1, fb.get(), 0), structured);
        check!(
            m.to_structured() == StructuredShortMessage::TimeCodeQuarterFrame(frame),
            "C06 quarter frame argument returned"
        );
        let m = T::song_position_pointer(u14v(v));
        check_built(&m, (0xF2, o::lo7(v), o::hi7(v)), structured);
        check!(
            m.to_structured() == StructuredShortMessage::SongPositionPointer { position: u14v(v) },
            "C06 song position argument returned"
        );
        let m = T::song_select(u7v(a));
        check_built(&m, (0xF3, a, 0), structured);
        check!(
            m.to_structured() == StructuredShortMessage::SongSelect { song_number: u7v(a) },
            "C06 song number argument returned"
        );
        check_built(&T::system_exclusive_start(), (0xF0, 0, 0), structured);
        check_built(&T::tune_request(), (0xF6, 0, 0), structured);
        check_built(&T::system_exclusive_end(), (0xF7, 0, 0), structured);
        check_built(&T::timing_clock(), (0xF8, 0, 0), structured);
        check_built(&T::start(), (0xFA, 0, 0), structured);
        check_built(&T::r#continue(), (0xFB, 0, 0), structured);
        check_built(&T::stop(), (0xFC, 0, 0), structured);
        check_built(&T::active_sensing(), (0xFE, 0, 0), structured);
        check_built(&T::system_reset(), (0xFF, 0, 0), structured);
    }
    if structured {
        go::<StructuredShortMessage>(a, v, frame, true)
    } else {
        go::<RawShortMessage>(a, v, frame, false)
    }
    witness!(nd, true, "built");
}

/// Generic constructors with a type of the right category: bytes placed unchanged.
/// `which`: 0 channel_message, 1 system_common_message, 2 system_real_time_message.
pub fn generic_ok<N: Nd>(nd: &mut N, which: u8, structured: bool) {
    let i = nd.u8_le(22);
    let c = nd.u8_le(15);
    let a = nd.u8_le(127);
    let b = nd.u8_le(127);
    let cat = o::fuzzy_cat(o::TYPE_BYTES[i as usize]);
    nd.assume(match which {
        0 => cat == 0,
        1 => cat == 1,
        _ => cat == 2,
    });
    let ty = type_of_index(i);
    let tb = o::TYPE_BYTES[i as usize];
    fn go<T: ShortMessageFactory>(which: u8, ty: ShortMessageType, tb: u8, c: u8, a: u8, b: u8, s: bool) {
        match which {
            0 => check_built(&T::channel_message(ty, chv(c), u7v(a), u7v(b)), (tb | c, a, b), s),
            1 => check_built(&T::system_common_message(ty, u7v(a), u7v(b)), (tb, a, b), s),
            _ => check_built(&T::system_real_time_message(ty), (tb, 0, 0), s),
        }
    }
    if structured {
        go::<StructuredShortMessage>(which, ty, tb, c, a, b, true)
    } else {
        go::<RawShortMessage>(which, ty, tb, c, a, b, false)
    }
    witness!(nd, true, "built");
}

/// Generic constructors with a type of another category must panic.
pub fn generic_must_panic<N: Nd>(nd: &mut N, which: u8, structured: bool) {
    let i = nd.u8_le(22);
    let c = nd.u8_le(15);
    let a = nd.u8_le(127);
    let b = nd.u8_le(127);
    let cat = o::fuzzy_cat(o::TYPE_BYTES[i as usize]);
    nd.assume(match which {
        0 => cat != 0,
        1 => cat != 1,
        _ => cat != 2,
    });
    let ty = type_of_index(i);
    fn go<T: ShortMessageFactory>(which: u8, ty: ShortMessageType, c: u8, a: u8, b: u8) {
        match which {
            0 => {
                let _ = T::channel_message(ty, chv(c), u7v(a), u7v(b));
            }
            1 => {
                let _ = T::system_common_message(ty, u7v(a), u7v(b));
            }
            _ => {
                let _ = T::system_real_time_message(ty);
            }
        }
    }
    if structured {
        go::<StructuredShortMessage>(which, ty, c, a, b)
    } else {
        go::<RawShortMessage>(which, ty, c, a, b)
    }
    returned!(nd);
}

// ------------------------------------------------------------------------------------------
// test_util shorthands
// ------------------------------------------------------------------------------------------

/// In-range primitive arguments: each shorthand equals the corresponding checked constructor.
pub fn shorthand_ok<N: Nd>(nd: &mut N, group: u8) {
    let c = nd.u8_le(15);
    let a = nd.u8_le(127);
    let b = nd.u8_le(127);
    let v = nd.u16_le(16383);
    let w = nd.u16_le(16383);
    type R = RawShortMessage;
    match group {
        0 => {
            check!(tu::u4(c).get() == c, "C06 shorthand u4");
            check!(tu::u7(a).get() == a, "C06 shorthand u7");
            check!(tu::u14(v).get() == v, "C06 shorthand u14");
            check!(tu::channel(c).get() == c, "C06 shorthand channel");
            check!(tu::key_number(a).get() == a, "C06 shorthand key_number");
            check!(tu::controller_number(a).get() == a, "C06 shorthand controller_number");
        }
        1 => {
            let s = nd.u8();
            nd.assume(s >= 0x80);
            check!(tu::short(s, a, b) == raw_of((s, a, b)), "C06 shorthand short");
            check!(tu::note_on(c, a, b) == R::note_on(chv(c), knv(a), u7v(b)), "C06 shorthand note_on");
            check!(tu::note_off(c, a, b) == R::note_off(chv(c), knv(a), u7v(b)), "C06 shorthand note_off");
            check!(
                tu::control_change(c, a, b) == R::control_change(chv(c), cnv(a), u7v(b)),
                "C06 shorthand control_change"
            );
            check!(
                tu::polyphonic_key_pressure(c, a, b) == R::polyphonic_key_pressure(chv(c), knv(a), u7v(b)),
                "C06 shorthand polyphonic_key_pressure"
            );
        }
        2 => {
            check!(tu::program_change(c, a) == R::program_change(chv(c), u7v(a)), "C06 shorthand program_change");
            check!(tu::channel_pressure(c, a) == R::channel_pressure(chv(c), u7v(a)), "C06 shorthand channel_pressure");
            check!(
                tu::pitch_bend_change(c, v) == R::pitch_bend_change(chv(c), u14v(v)),
                "C06 shorthand pitch_bend_change"
            );
            check!(
                tu::song_position_pointer(v) == R::song_position_pointer(u14v(v)),
                "C06 shorthand song_position_pointer"
            );
            check!(tu::song_select(a) == R::song_select(u7v(a)), "C06 shorthand song_select");
            let f = any_quarter_frame(nd);
            check!(tu::time_code_quarter_frame(f) == R::time_code_quarter_frame(f), "C06 shorthand time_code_quarter_frame");
            check!(tu::system_exclusive_start() == R::system_exclusive_start(), "C06 shorthand system_exclusive_start");
            check!(tu::tune_request() == R::tune_request(), "C06 shorthand tune_request");
            check!(tu::system_exclusive_end() == R::system_exclusive_end(), "C06 shorthand system_exclusive_end");
            check!(tu::timing_clock() == R::timing_clock(), "C06 shorthand timing_clock");
            check!(tu::start() == R::start(), "C06 shorthand start");
            check!(tu::r#continue() == R::r#continue(), "C06 shorthand continue");
            check!(tu::stop() == R::stop(), "C06 shorthand stop");
            check!(tu::active_sensing() == R::active_sensing(), "C06 shorthand active_sensing");
            check!(tu::system_reset() == R::system_reset(), "C06 shorthand system_reset");
        }
        _ => {
            let n = nd.u8_le(31);
            check!(
                tu::control_change_14_bit(c, n, v) == ControlChange14BitMessage::new(chv(c), cnv(n), u14v(v)),
                "C06 shorthand control_change_14_bit"
            );
            check!(
                tu::nrpn(c, v, a) == ParameterNumberMessage::non_registered_7_bit(chv(c), u14v(v), u7v(a)),
                "C06 shorthand nrpn"
            );
            check!(
                tu::nrpn_14_bit(c, v, w) == ParameterNumberMessage::non_registered_14_bit(chv(c), u14v(v), u14v(w)),
                "C06 shorthand nrpn_14_bit"
            );
            check!(
                tu::rpn(c, v, a) == ParameterNumberMessage::registered_7_bit(chv(c), u14v(v), u7v(a)),
                "C06 shorthand rpn"
            );
            check!(
                tu::rpn_14_bit(c, v, w) == ParameterNumberMessage::registered_14_bit(chv(c), u14v(v), u14v(w)),
                "C06 shorthand rpn_14_bit"
            );
        }
    }
    witness!(nd, true, "built");
}

/// At least one primitive argument out of range: the shorthand must panic. One shorthand per
/// `which` value.
pub fn shorthand_must_panic<N: Nd>(nd: &mut N, which: u8) {
    let c = nd.u8();
    let a = nd.u8();
    let b = nd.u8();
    let v = nd.u16();
    let w = nd.u16();
    let bad_c = c > 15;
    let bad_a = a > 127;
    let bad_b = b > 127;
    let bad_v = v > 16383;
    let bad_w = w > 16383;
    match which {
        0 => {
            nd.assume(bad_c);
            let _ = tu::u4(c);
        }
        1 => {
            nd.assume(bad_a);
            let _ = tu::u7(a);
        }
        2 => {
            nd.assume(bad_v);
            let _ = tu::u14(v);
        }
        3 => {
            nd.assume(bad_c);
            let _ = tu::channel(c);
        }
        4 => {
            nd.assume(bad_a);
            let _ = tu::key_number(a);
        }
        5 => {
            nd.assume(bad_a);
            let _ = tu::controller_number(a);
        }
        6 => {
            // `c` plays the status byte here
            nd.assume(c < 0x80 || bad_a || bad_b);
            let _ = tu::short(c, a, b);
        }
        7 => {
            nd.assume(bad_c || bad_a || bad_b);
            let _ = tu::note_on(c, a, b);
        }
        8 => {
            nd.assume(bad_c || bad_a || bad_b);
            let _ = tu::note_off(c, a, b);
        }
        9 => {
            nd.assume(bad_c || bad_a || bad_b);
            let _ = tu::control_change(c, a, b);
        }
        10 => {
            nd.assume(bad_c || bad_a || bad_b);
            let _ = tu::polyphonic_key_pressure(c, a, b);
        }
        11 => {
            nd.assume(bad_c || bad_a);
            let _ = tu::program_change(c, a);
        }
        12 => {
            nd.assume(bad_c || bad_a);
            let _ = tu::channel_pressure(c, a);
        }
        13 => {
            nd.assume(bad_c || bad_v);
            let _ = tu::pitch_bend_change(c, v);
        }
        14 => {
            nd.assume(bad_v);
            let _ = tu::song_position_pointer(v);
        }
        15 => {
            nd.assume(bad_a);
            let _ = tu::song_select(a);
        }
        16 => {
            // MSB controller number above 31 is a documented panic as well
            nd.assume(bad_c || a > 31 || bad_v);
            let _ = tu::control_change_14_bit(c, a, v);
        }
        17 => {
            nd.assume(bad_c || bad_v || bad_a);
            let _ = tu::nrpn(c, v, a);
        }
        18 => {
            nd.assume(bad_c || bad_v || bad_w);
            let _ = tu::nrpn_14_bit(c, v, w);
        }
        19 => {
            nd.assume(bad_c || bad_v || bad_a);
            let _ = tu::rpn(c, v, a);
        }
        _ => {
            nd.assume(bad_c || bad_v || bad_w);
            let _ = tu::rpn_14_bit(c, v, w);
        }
    }
    returned!(nd);
}

/// Witness twin.
pub fn twin<N: Nd>(nd: &mut N) {
    let c = nd.u8_le(15);
    let v = nd.u16_le(16383);
    let m = RawShortMessage::pitch_bend_change(chv(c), u14v(v));
    check!(m.data_byte_1().get() == o::hi7(v), "twin: deliberately swapped halves");
}
