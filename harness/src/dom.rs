//! Symbolic domains of the public value types, third-party `ShortMessage` implementors and the
//! observation record of every trait method.
use crate::nd::Nd;
use helgoboss_midi::*;

pub fn u4v(v: u8) -> U4 {
    debug_assert!(v <= U4::MAX.get());
    unsafe { U4::new_unchecked(v) }
}
pub fn u7v(v: u8) -> U7 {
    debug_assert!(v <= U7::MAX.get());
    unsafe { U7::new_unchecked(v) }
}
pub fn u14v(v: u16) -> U14 {
    debug_assert!(v <= U14::MAX.get());
    unsafe { U14::new_unchecked(v) }
}
pub fn chv(v: u8) -> Channel {
    debug_assert!(v <= Channel::MAX.get());
    unsafe { Channel::new_unchecked(v) }
}
pub fn knv(v: u8) -> KeyNumber {
    debug_assert!(v <= KeyNumber::MAX.get());
    unsafe { KeyNumber::new_unchecked(v) }
}
pub fn cnv(v: u8) -> ControllerNumber {
    debug_assert!(v <= ControllerNumber::MAX.get());
    unsafe { ControllerNumber::new_unchecked(v) }
}

pub fn any_u4<N: Nd>(nd: &mut N) -> U4 {
    u4v(nd.u8_le(15))
}
pub fn any_u7<N: Nd>(nd: &mut N) -> U7 {
    u7v(nd.u8_le(127))
}
pub fn any_u14<N: Nd>(nd: &mut N) -> U14 {
    u14v(nd.u16_le(16383))
}
pub fn any_ch<N: Nd>(nd: &mut N) -> Channel {
    chv(nd.u8_le(15))
}
pub fn any_kn<N: Nd>(nd: &mut N) -> KeyNumber {
    knv(nd.u8_le(127))
}
pub fn any_cn<N: Nd>(nd: &mut N) -> ControllerNumber {
    cnv(nd.u8_le(127))
}

/// Any (status, d1, d2) with 7-bit data bytes; the status byte is unconstrained.
pub fn any_triple<N: Nd>(nd: &mut N) -> (u8, u8, u8) {
    let s = nd.u8();
    let d1 = nd.u8_le(127);
    let d2 = nd.u8_le(127);
    (s, d1, d2)
}

/// Any valid triple (status >= 0x80).
pub fn any_valid_triple<N: Nd>(nd: &mut N) -> (u8, u8, u8) {
    let t = any_triple(nd);
    nd.assume(t.0 >= 0x80);
    t
}

pub fn bytes_of(t: (u8, u8, u8)) -> (u8, U7, U7) {
    (t.0, u7v(t.1), u7v(t.2))
}

pub fn raw_of(t: (u8, u8, u8)) -> RawShortMessage {
    RawShortMessage::from_bytes(bytes_of(t)).ok().unwrap()
}

pub fn time_code_type_of(i: u8) -> TimeCodeType {
    match i {
        0 => TimeCodeType::Fps24,
        1 => TimeCodeType::Fps25,
        2 => TimeCodeType::Fps30DropFrame,
        _ => TimeCodeType::Fps30NonDrop,
    }
}

/// Every value of `TimeCodeQuarterFrame` (7 x 16 + 2 x 4 = 120 values).
pub fn any_quarter_frame<N: Nd>(nd: &mut N) -> TimeCodeQuarterFrame {
    let kind = nd.u8_le(7);
    let nib = nd.u8_le(15);
    quarter_frame_of(kind, nib)
}

/// Frame of kind 0..=7; for kind 7 `nib` bit 0 is the hours ms bit, bits 1-2 the time code type
/// (bit 3 ignored).
pub fn quarter_frame_of(kind: u8, nib: u8) -> TimeCodeQuarterFrame {
    use TimeCodeQuarterFrame::*;
    match kind {
        0 => FrameCountLsNibble(u4v(nib)),
        1 => FrameCountMsNibble(u4v(nib)),
        2 => SecondsCountLsNibble(u4v(nib)),
        3 => SecondsCountMsNibble(u4v(nib)),
        4 => MinutesCountLsNibble(u4v(nib)),
        5 => MinutesCountMsNibble(u4v(nib)),
        6 => HoursCountLsNibble(u4v(nib)),
        _ => Last {
            hours_count_ms_bit: nib & 1 != 0,
            time_code_type: time_code_type_of((nib >> 1) & 3),
        },
    }
}

/// Every value of `StructuredShortMessage`, built from its public variants (this includes values
/// that `from_bytes` could in principle never produce). Returns the value and the canonical
/// triple it must correspond to.
pub fn any_structured<N: Nd>(nd: &mut N) -> (StructuredShortMessage, (u8, u8, u8)) {
    let variant = nd.u8_le(22);
    structured_of_variant(nd, variant)
}

/// Every value of one variant (index 0..=22 in MIDI 1.0 order) of `StructuredShortMessage`.
pub fn structured_of_variant<N: Nd>(
    nd: &mut N,
    variant: u8,
) -> (StructuredShortMessage, (u8, u8, u8)) {
    use StructuredShortMessage as S;
    let c = nd.u8_le(15);
    let a = nd.u8_le(127);
    let b = nd.u8_le(127);
    let v14 = (b as u16) * 128 + a as u16;
    match variant {
        0 => (
            S::NoteOff {
                channel: chv(c),
                key_number: knv(a),
                velocity: u7v(b),
            },
            (0x80 + c, a, b),
        ),
        1 => (
            S::NoteOn {
                channel: chv(c),
                key_number: knv(a),
                velocity: u7v(b),
            },
            (0x90 + c, a, b),
        ),
        2 => (
            S::PolyphonicKeyPressure {
                channel: chv(c),
                key_number: knv(a),
                pressure_amount: u7v(b),
            },
            (0xA0 + c, a, b),
        ),
        3 => (
            S::ControlChange {
                channel: chv(c),
                controller_number: cnv(a),
                control_value: u7v(b),
            },
            (0xB0 + c, a, b),
        ),
        4 => (
            S::ProgramChange {
                channel: chv(c),
                program_number: u7v(a),
            },
            (0xC0 + c, a, 0),
        ),
        5 => (
            S::ChannelPressure {
                channel: chv(c),
                pressure_amount: u7v(a),
            },
            (0xD0 + c, a, 0),
        ),
        6 => (
            S::PitchBendChange {
                channel: chv(c),
                pitch_bend_value: u14v(v14),
            },
            (0xE0 + c, a, b),
        ),
        7 => (S::SystemExclusiveStart, (0xF0, 0, 0)),
        8 => {
            let kind = a >> 4;
            let nib = a & 15;
            let byte = if kind == 7 { a & 0x77 } else { a };
            (
                S::TimeCodeQuarterFrame(quarter_frame_of(kind, nib)),
                (0xF1, byte, 0),
            )
        }
        9 => (S::SongPositionPointer { position: u14v(v14) }, (0xF2, a, b)),
        10 => (S::SongSelect { song_number: u7v(a) }, (0xF3, a, 0)),
        11 => (S::SystemCommonUndefined1, (0xF4, 0, 0)),
        12 => (S::SystemCommonUndefined2, (0xF5, 0, 0)),
        13 => (S::TuneRequest, (0xF6, 0, 0)),
        14 => (S::SystemExclusiveEnd, (0xF7, 0, 0)),
        15 => (S::TimingClock, (0xF8, 0, 0)),
        16 => (S::SystemRealTimeUndefined1, (0xF9, 0, 0)),
        17 => (S::Start, (0xFA, 0, 0)),
        18 => (S::Continue, (0xFB, 0, 0)),
        19 => (S::Stop, (0xFC, 0, 0)),
        20 => (S::SystemRealTimeUndefined2, (0xFD, 0, 0)),
        21 => (S::ActiveSensing, (0xFE, 0, 0)),
        _ => (S::SystemReset, (0xFF, 0, 0)),
    }
}

/// The 23 message types by index in MIDI 1.0 order; `oracle::TYPE_BYTES[i]` is the type byte.
pub fn type_of_index(i: u8) -> ShortMessageType {
    use ShortMessageType::*;
    match i {
        0 => NoteOff,
        1 => NoteOn,
        2 => PolyphonicKeyPressure,
        3 => ControlChange,
        4 => ProgramChange,
        5 => ChannelPressure,
        6 => PitchBendChange,
        7 => SystemExclusiveStart,
        8 => TimeCodeQuarterFrame,
        9 => SongPositionPointer,
        10 => SongSelect,
        11 => SystemCommonUndefined1,
        12 => SystemCommonUndefined2,
        13 => TuneRequest,
        14 => SystemExclusiveEnd,
        15 => TimingClock,
        16 => SystemRealTimeUndefined1,
        17 => Start,
        18 => Continue,
        19 => Stop,
        20 => SystemRealTimeUndefined2,
        21 => ActiveSensing,
        _ => SystemReset,
    }
}

/// Type byte of a `ShortMessageType` by an explicit table (independent of `IntoPrimitive`).
pub fn type_byte_of(t: ShortMessageType) -> u8 {
    use ShortMessageType::*;
    match t {
        NoteOff => 0x80,
        NoteOn => 0x90,
        PolyphonicKeyPressure => 0xA0,
        ControlChange => 0xB0,
        ProgramChange => 0xC0,
        ChannelPressure => 0xD0,
        PitchBendChange => 0xE0,
        SystemExclusiveStart => 0xF0,
        TimeCodeQuarterFrame => 0xF1,
        SongPositionPointer => 0xF2,
        SongSelect => 0xF3,
        SystemCommonUndefined1 => 0xF4,
        SystemCommonUndefined2 => 0xF5,
        TuneRequest => 0xF6,
        SystemExclusiveEnd => 0xF7,
        TimingClock => 0xF8,
        SystemRealTimeUndefined1 => 0xF9,
        Start => 0xFA,
        Continue => 0xFB,
        Stop => 0xFC,
        SystemRealTimeUndefined2 => 0xFD,
        ActiveSensing => 0xFE,
        SystemReset => 0xFF,
    }
}

// ---------------------------------------------------------------------------------------------
// Third-party implementors
// ---------------------------------------------------------------------------------------------

/// Implements only the three byte getters (and the factory's unchecked constructor).
#[derive(Copy, Clone, PartialEq, Eq, Debug)]
pub struct Foreign {
    pub s: u8,
    pub a: U7,
    pub b: U7,
}

impl ShortMessage for Foreign {
    fn status_byte(&self) -> u8 {
        self.s
    }
    fn data_byte_1(&self) -> U7 {
        self.a
    }
    fn data_byte_2(&self) -> U7 {
        self.b
    }
}

impl ShortMessageFactory for Foreign {
    unsafe fn from_bytes_unchecked(bytes: (u8, U7, U7)) -> Self {
        Foreign {
            s: bytes.0,
            a: bytes.1,
            b: bytes.2,
        }
    }
}

/// Additionally overrides `to_bytes` (stored in a different layout).
#[derive(Copy, Clone, PartialEq, Eq, Debug)]
pub struct ForeignBytes {
    pub packed: u32,
}

impl ShortMessage for ForeignBytes {
    fn status_byte(&self) -> u8 {
        (self.packed >> 16) as u8
    }
    fn data_byte_1(&self) -> U7 {
        u7v(((self.packed >> 8) & 0x7f) as u8)
    }
    fn data_byte_2(&self) -> U7 {
        u7v((self.packed & 0x7f) as u8)
    }
    fn to_bytes(&self) -> (u8, U7, U7) {
        (
            (self.packed >> 16) as u8,
            u7v(((self.packed >> 8) & 0x7f) as u8),
            u7v((self.packed & 0x7f) as u8),
        )
    }
}

impl ShortMessageFactory for ForeignBytes {
    unsafe fn from_bytes_unchecked(bytes: (u8, U7, U7)) -> Self {
        ForeignBytes {
            packed: ((bytes.0 as u32) << 16) | ((bytes.1.get() as u32) << 8) | bytes.2.get() as u32,
        }
    }
}

// ---------------------------------------------------------------------------------------------
// Observation of every trait method
// ---------------------------------------------------------------------------------------------

#[derive(Copy, Clone, PartialEq, Eq, Debug)]
pub struct Obs {
    pub bytes: (u8, u8, u8),
    pub to_bytes: (u8, u8, u8),
    pub ty: u8,
    pub super_type: MessageSuperType,
    pub main_category: MessageMainCategory,
    pub channel: Option<u8>,
    pub key_number: Option<u8>,
    pub velocity: Option<u8>,
    pub controller_number: Option<u8>,
    pub control_value: Option<u8>,
    pub program_number: Option<u8>,
    pub pressure_amount: Option<u8>,
    pub pitch_bend_value: Option<u16>,
    pub is_note: bool,
    pub is_note_on: bool,
    pub is_note_off: bool,
    pub structured: StructuredShortMessage,
}

pub fn observe<M: ShortMessage>(m: &M) -> Obs {
    let tb = m.to_bytes();
    Obs {
        bytes: (m.status_byte(), m.data_byte_1().get(), m.data_byte_2().get()),
        to_bytes: (tb.0, tb.1.get(), tb.2.get()),
        ty: type_byte_of(m.r#type()),
        super_type: m.super_type(),
        main_category: m.main_category(),
        channel: m.channel().map(|c| c.get()),
        key_number: m.key_number().map(|c| c.get()),
        velocity: m.velocity().map(|c| c.get()),
        controller_number: m.controller_number().map(|c| c.get()),
        control_value: m.control_value().map(|c| c.get()),
        program_number: m.program_number().map(|c| c.get()),
        pressure_amount: m.pressure_amount().map(|c| c.get()),
        pitch_bend_value: m.pitch_bend_value().map(|c| c.get()),
        is_note: m.is_note(),
        is_note_on: m.is_note_on(),
        is_note_off: m.is_note_off(),
        structured: m.to_structured(),
    }
}

/// The observation the MIDI 1.0 tables prescribe for a valid triple whose bytes are reported
/// as `reported` (raw: the triple itself; structured: its canonical form).
pub fn expected_obs(t: (u8, u8, u8), reported: (u8, u8, u8)) -> Obs {
    use crate::oracle as o;
    let (s, d1, d2) = t;
    let ty = o::type_byte(s);
    let cat = o::super_cat(s, d1);
    let is_ch = o::is_channel_status(s);
    let some_if = |c: bool, v: u8| if c { Some(v) } else { None };
    Obs {
        bytes: reported,
        to_bytes: reported,
        ty,
        super_type: match cat {
            o::Cat::ChannelVoice => MessageSuperType::ChannelVoice,
            o::Cat::ChannelMode => MessageSuperType::ChannelMode,
            o::Cat::SystemCommon => MessageSuperType::SystemCommon,
            o::Cat::SystemRealTime => MessageSuperType::SystemRealTime,
            o::Cat::SystemExclusive => MessageSuperType::SystemExclusive,
        },
        main_category: if is_ch {
            MessageMainCategory::Channel
        } else {
            MessageMainCategory::System
        },
        channel: some_if(is_ch, s & 0x0F),
        key_number: some_if(ty == 0x80 || ty == 0x90 || ty == 0xA0, d1),
        velocity: some_if(ty == 0x80 || ty == 0x90, d2),
        controller_number: some_if(ty == 0xB0, d1),
        control_value: some_if(ty == 0xB0, d2),
        program_number: some_if(ty == 0xC0, d1),
        pressure_amount: if ty == 0xA0 {
            Some(d2)
        } else if ty == 0xD0 {
            Some(d1)
        } else {
            None
        },
        pitch_bend_value: if ty == 0xE0 {
            Some(o::join14(d2, d1))
        } else {
            None
        },
        is_note: ty == 0x80 || ty == 0x90,
        is_note_on: ty == 0x90 && d2 > 0,
        is_note_off: ty == 0x80 || (ty == 0x90 && d2 == 0),
        structured: expected_structured(t),
    }
}

/// The structured value the MIDI 1.0 tables prescribe for a valid triple.
pub fn expected_structured(t: (u8, u8, u8)) -> StructuredShortMessage {
    use crate::oracle as o;
    use StructuredShortMessage as S;
    let (s, d1, d2) = t;
    let c = s & 0x0F;
    match o::type_byte(s) {
        0x80 => S::NoteOff {
            channel: chv(c),
            key_number: knv(d1),
            velocity: u7v(d2),
        },
        0x90 => S::NoteOn {
            channel: chv(c),
            key_number: knv(d1),
            velocity: u7v(d2),
        },
        0xA0 => S::PolyphonicKeyPressure {
            channel: chv(c),
            key_number: knv(d1),
            pressure_amount: u7v(d2),
        },
        0xB0 => S::ControlChange {
            channel: chv(c),
            controller_number: cnv(d1),
            control_value: u7v(d2),
        },
        0xC0 => S::ProgramChange {
            channel: chv(c),
            program_number: u7v(d1),
        },
        0xD0 => S::ChannelPressure {
            channel: chv(c),
            pressure_amount: u7v(d1),
        },
        0xE0 => S::PitchBendChange {
            channel: chv(c),
            pitch_bend_value: u14v(o::join14(d2, d1)),
        },
        0xF0 => S::SystemExclusiveStart,
        0xF1 => S::TimeCodeQuarterFrame(quarter_frame_of(d1 >> 4, d1 & 15)),
        0xF2 => S::SongPositionPointer {
            position: u14v(o::join14(d2, d1)),
        },
        0xF3 => S::SongSelect {
            song_number: u7v(d1),
        },
        0xF4 => S::SystemCommonUndefined1,
        0xF5 => S::SystemCommonUndefined2,
        0xF6 => S::TuneRequest,
        0xF7 => S::SystemExclusiveEnd,
        0xF8 => S::TimingClock,
        0xF9 => S::SystemRealTimeUndefined1,
        0xFA => S::Start,
        0xFB => S::Continue,
        0xFC => S::Stop,
        0xFD => S::SystemRealTimeUndefined2,
        0xFE => S::ActiveSensing,
        _ => S::SystemReset,
    }
}

pub fn in_range_u7(v: U7) -> bool {
    v.get() <= 127
}
pub fn in_range_u14(v: U14) -> bool {
    v.get() <= 16383
}
pub fn in_range_ch(v: Channel) -> bool {
    v.get() <= 15
}
