//! Polling (N)RPN scanner: observer, concretisation through the public API, inductive steps
//! for feed / poll / reset with symbolic time and timeout (C12, C13, C14) and the isolation /
//! transparency / reset clauses (C15, C16, C17).
use crate::dom::*;
use crate::check;
use crate::nd::Nd;
use crate::oracle as o;
use crate::pnm::{build, cc, check_msg_range};
use crate::witness;
use core::time::Duration;
use helgoboss_midi::verif_hooks::set_now;
use helgoboss_midi::*;

type Scanner = PollingParameterNumberMessageScanner;
type Pnm = ParameterNumberMessage;

/// A point in time / a duration as (seconds, nanoseconds < 10^9).
#[derive(Copy, Clone, PartialEq, Eq, Debug)]
pub struct T {
    pub s: u64,
    pub n: u32,
}

impl T {
    pub fn dur(self) -> Duration {
        Duration::new(self.s, self.n)
    }
    pub fn le(self, other: T) -> bool {
        self.s < other.s || (self.s == other.s && self.n <= other.n)
    }
}

pub fn any_t<N: Nd>(nd: &mut N) -> T {
    let s = nd.u64();
    let n = nd.u32();
    nd.assume(n < 1_000_000_000);
    T { s, n }
}

/// `now - t >= timeout` in exact arithmetic (now >= t).
pub fn expired(now: T, t: T, timeout: T) -> bool {
    // elapsed = now - t
    let (mut es, en);
    if now.n >= t.n {
        es = now.s - t.s;
        en = now.n - t.n;
    } else {
        es = now.s - t.s - 1;
        en = now.n + 1_000_000_000 - t.n;
    }
    let _ = &mut es;
    es > timeout.s || (es == timeout.s && en >= timeout.n)
}

// ---------------------------------------------------------------------------------------------
// Observer (from the statements of C12 - C14)
// ---------------------------------------------------------------------------------------------

#[derive(Copy, Clone, PartialEq, Eq, Debug)]
pub enum Num {
    /// no number byte since creation / reset
    None,
    /// one half received (possibly several times)
    One { is_msb: bool, byte: u8, reg: bool },
    /// both halves received; `reg` = kind of the most recent number byte
    Complete { msb: u8, lsb: u8, reg: bool },
}

#[derive(Copy, Clone, PartialEq, Eq, Debug)]
pub enum Val {
    Idle,
    /// a first value byte (controller 6 if `is_msb`, else 38) waits for its partner since `t`
    Pending { is_msb: bool, byte: u8, t: T },
    /// a complete 14-bit value was reported; a further LSB is a fine adjustment
    Done14 { msb: u8, lsb: u8 },
}

#[derive(Copy, Clone, PartialEq, Eq, Debug)]
pub struct ChObs {
    pub num: Num,
    pub val: Val,
}

pub const CH_EMPTY: ChObs = ChObs {
    num: Num::None,
    val: Val::Idle,
};

#[derive(Copy, Clone, PartialEq, Eq, Debug)]
pub struct Obs {
    pub ch: [ChObs; 16],
}

pub const EMPTY: Obs = Obs { ch: [CH_EMPTY; 16] };

pub fn any_ch_obs<N: Nd>(nd: &mut N) -> ChObs {
    let nk = nd.u8_le(2);
    let vk = nd.u8_le(2);
    let b1 = nd.u8_le(127);
    let b2 = nd.u8_le(127);
    let b3 = nd.u8_le(127);
    let b4 = nd.u8_le(127);
    let f1 = nd.bool();
    let f2 = nd.bool();
    let t = any_t(nd);
    let num = match nk {
        0 => Num::None,
        1 => Num::One {
            is_msb: f1,
            byte: b1,
            reg: f2,
        },
        _ => Num::Complete {
            msb: b1,
            lsb: b2,
            reg: f2,
        },
    };
    let val = if nk == 2 {
        match vk {
            0 => Val::Idle,
            1 => Val::Pending {
                is_msb: f1,
                byte: b3,
                t,
            },
            _ => Val::Done14 { msb: b3, lsb: b4 },
        }
    } else {
        Val::Idle
    };
    ChObs { num, val }
}

pub fn any_obs<N: Nd>(nd: &mut N, mask: u16) -> Obs {
    let mut a = EMPTY;
    let mut c = 0;
    while c < 16 {
        if mask & (1 << c) != 0 {
            a.ch[c] = any_ch_obs(nd);
        }
        c += 1;
    }
    a
}

/// Every pending byte arrived no later than `now` (the clock is monotone).
pub fn valid_at(a: &Obs, now: T) -> bool {
    let mut ok = true;
    let mut c = 0;
    while c < 16 {
        if let Val::Pending { t, .. } = a.ch[c].val {
            ok = ok && t.le(now);
        }
        c += 1;
    }
    ok
}

fn scc(c: u8, n: u8, v: u8) -> StructuredShortMessage {
    // fed as a structured message: no byte decoding on the way in
    StructuredShortMessage::ControlChange {
        channel: chv(c),
        controller_number: cnv(n),
        control_value: u7v(v),
    }
}

fn none2(r: &[Option<Pnm>; 2]) -> bool {
    r[0].is_none() && r[1].is_none()
}

/// Shortest feed sequence that puts channel `c` of a scanner (channel initial) into `a`.
/// Controller numbers stay concrete on every path (DESIGN 3.6); the stages are shared between
/// the shapes so that few call sites are symbolically executed.
pub fn gen_channel(s: &mut Scanner, c: u8, a: &ChObs) {
    // stage 1: first number byte
    let (has1, first_is_msb, first_byte, reg) = match a.num {
        Num::None => (false, false, 0, false),
        Num::One { is_msb, byte, reg } => (true, is_msb, byte, reg),
        Num::Complete { msb, reg, .. } => (true, true, msb, reg),
    };
    if has1 {
        let r = match (first_is_msb, reg) {
            (true, true) => s.feed(&scc(c, 101, first_byte)),
            (true, false) => s.feed(&scc(c, 99, first_byte)),
            (false, true) => s.feed(&scc(c, 100, first_byte)),
            (false, false) => s.feed(&scc(c, 98, first_byte)),
        };
        check!(none2(&r), "C14 nothing is reported before a number is complete");
    }
    // stage 2: number LSB completes the number
    if let Num::Complete { lsb, reg, .. } = a.num {
        let r = if reg { s.feed(&scc(c, 100, lsb)) } else { s.feed(&scc(c, 98, lsb)) };
        check!(none2(&r), "C14 nothing is reported before a number is complete");
        // stage 3: first value byte
        let (has3, is6, byte) = match a.val {
            Val::Idle => (false, false, 0),
            Val::Pending { is_msb, byte, t } => {
                set_now(t.dur());
                (true, is_msb, byte)
            }
            Val::Done14 { msb, .. } => (true, true, msb),
        };
        if has3 {
            let r = if is6 { s.feed(&scc(c, 6, byte)) } else { s.feed(&scc(c, 38, byte)) };
            check!(none2(&r), "C12 a first value byte reports nothing yet");
        }
        // stage 4: the LSB completing a 14-bit value
        if let Val::Done14 { lsb: vl, .. } = a.val {
            let r = s.feed(&scc(c, 38, vl));
            check!(r[0].is_some() && r[1].is_none(), "C12 MSB,LSB reports one 14-bit message at the second byte");
        }
    }
}

/// All channels of the family except `skip` (pass 16 to skip none).
pub fn gen_except(a: &Obs, timeout: T, skip: u8) -> Scanner {
    let mut s = Scanner::new(timeout.dur());
    let mut c = 0;
    while c < 16 {
        if c as u8 != skip {
            gen_channel(&mut s, c as u8, &a.ch[c]);
        }
        c += 1;
    }
    s
}

/// Canonical concretisation: channels in ascending order.
pub fn gen(a: &Obs, timeout: T) -> Scanner {
    gen_except(a, timeout, 16)
}

/// Concretisation with channel `last` generated last, on top of `base = gen_except(a, last)`.
/// Equal to `gen(a)` by the order lemma (`order_lemma`), which is a separate solver query.
pub fn gen_on(base: &Scanner, last: u8, x: &ChObs) -> Scanner {
    let mut s = *base;
    gen_channel(&mut s, last, x);
    s
}

/// Order lemma: generating channel `last` after all others gives the canonical state.
pub fn order_lemma<N: Nd>(nd: &mut N, mask: u16, last: u8) {
    let timeout = any_t(nd);
    let a = any_obs(nd, mask);
    let base = gen_except(&a, timeout, last);
    check!(gen_on(&base, last, &a.ch[last as usize]) == gen(&a, timeout), "C15 the order in which channels are brought into their states does not matter");
    witness!(nd, a.ch[last as usize].num != Num::None, "non-initial");
}

/// Expected message: (number, value, registered, kind) on the channel of the call.
pub type E = Option<(u16, u16, bool, u8)>;

pub fn number_of(num: &Num) -> Option<(u16, bool)> {
    match *num {
        Num::Complete { msb, lsb, reg } => Some((o::join14(msb, lsb), reg)),
        _ => None,
    }
}

/// What C12-C14 prescribe for a Control Change (d1, d2) fed on a channel at `now`.
pub fn spec_feed(x: &mut ChObs, d1: u8, d2: u8, now: T) -> [E; 2] {
    let nr = number_of(&x.num);
    match d1 {
        98 | 99 | 100 | 101 => {
            let is_msb = d1 == 99 || d1 == 101;
            let reg = d1 >= 100;
            match x.num {
                Num::None => {
                    x.num = Num::One {
                        is_msb,
                        byte: d2,
                        reg,
                    };
                    [None, None]
                }
                Num::One {
                    is_msb: m0,
                    byte: b0,
                    ..
                } => {
                    if m0 == is_msb {
                        x.num = Num::One {
                            is_msb,
                            byte: d2,
                            reg,
                        };
                    } else {
                        x.num = Num::Complete {
                            msb: if m0 { b0 } else { d2 },
                            lsb: if m0 { d2 } else { b0 },
                            reg,
                        };
                        x.val = Val::Idle;
                    }
                    [None, None]
                }
                Num::Complete { msb, lsb, reg: r0 } => {
                    // a pending MSB is flushed with the number selected so far
                    let out = match x.val {
                        Val::Pending {
                            is_msb: true, byte, ..
                        } => Some((o::join14(msb, lsb), byte as u16, r0, 0)),
                        _ => None,
                    };
                    x.num = Num::Complete {
                        msb: if is_msb { d2 } else { msb },
                        lsb: if is_msb { lsb } else { d2 },
                        reg,
                    };
                    x.val = Val::Idle;
                    [out, None]
                }
            }
        }
        38 => match nr {
            None => [None, None],
            Some((n, r)) => match x.val {
                Val::Idle => {
                    x.val = Val::Pending {
                        is_msb: false,
                        byte: d2,
                        t: now,
                    };
                    [None, None]
                }
                Val::Pending {
                    is_msb: true, byte, ..
                } => {
                    x.val = Val::Done14 { msb: byte, lsb: d2 };
                    [Some((n, o::join14(byte, d2), r, 1)), None]
                }
                Val::Pending { is_msb: false, .. } => {
                    // LSB, LSB: malformed; both are dropped (corner left open by C12-C14)
                    x.val = Val::Idle;
                    [None, None]
                }
                Val::Done14 { msb, .. } => {
                    x.val = Val::Done14 { msb, lsb: d2 };
                    [Some((n, o::join14(msb, d2), r, 1)), None]
                }
            },
        },
        6 => match nr {
            None => [None, None],
            Some((n, r)) => match x.val {
                Val::Idle | Val::Done14 { .. } => {
                    x.val = Val::Pending {
                        is_msb: true,
                        byte: d2,
                        t: now,
                    };
                    [None, None]
                }
                Val::Pending {
                    is_msb: true, byte, ..
                } => {
                    x.val = Val::Pending {
                        is_msb: true,
                        byte: d2,
                        t: now,
                    };
                    [Some((n, byte as u16, r, 0)), None]
                }
                Val::Pending {
                    is_msb: false,
                    byte,
                    ..
                } => {
                    x.val = Val::Done14 { msb: d2, lsb: byte };
                    [Some((n, o::join14(d2, byte), r, 1)), None]
                }
            },
        },
        96 | 97 => {
            let kind = if d1 == 96 { 2 } else { 3 };
            match nr {
                None => [None, None],
                Some((n, r)) => match x.val {
                    Val::Idle | Val::Done14 { .. } => {
                        x.val = Val::Idle;
                        [Some((n, d2 as u16, r, kind)), None]
                    }
                    Val::Pending {
                        is_msb: true, byte, ..
                    } => {
                        x.val = Val::Idle;
                        [Some((n, byte as u16, r, 0)), Some((n, d2 as u16, r, kind))]
                    }
                    Val::Pending { is_msb: false, .. } => {
                        // LSB, inc/dec: malformed (corner left open by C12-C14)
                        x.val = Val::Idle;
                        [None, None]
                    }
                },
            }
        }
        _ => [None, None],
    }
}

/// What C13 prescribes for poll(c) at `now`.
pub fn spec_poll(x: &mut ChObs, now: T, timeout: T) -> E {
    match (number_of(&x.num), x.val) {
        (Some((n, r)), Val::Pending { is_msb, byte, t }) => {
            if expired(now, t, timeout) {
                x.val = Val::Idle;
                if is_msb {
                    Some((n, byte as u16, r, 0))
                } else {
                    None
                }
            } else {
                None
            }
        }
        _ => None,
    }
}

/// Is (state, controller) one of the two malformed corners the properties leave open?
pub fn open_corner(x: &ChObs, d1: u8) -> bool {
    matches!(x.val, Val::Pending { is_msb: false, .. }) && (d1 == 38 || d1 == 96 || d1 == 97)
}

pub fn same(out: &Option<Pnm>, ch: u8, e: E) -> bool {
    match (out, e) {
        (None, None) => true,
        (Some(m), Some((n, v, r, k))) => *m == build(ch, n, v, r, k),
        _ => false,
    }
}

/// C14 clauses stated on (pre-observer, event, real outputs), independently of `spec_feed`.
pub fn c14_clauses(pre: &ChObs, ch: u8, d1: Option<u8>, d2: u8, out: &[Option<Pnm>; 2], poll_expired: bool) {
    let nr = number_of(&pre.num);
    let pending_msb = match pre.val {
        Val::Pending {
            is_msb: true, byte, ..
        } => Some(byte),
        _ => None,
    };
    if out[1].is_some() {
        check!(out[0].is_some(), "C14 never a second message without a first");
        check!(
            (d1 == Some(96) || d1 == Some(97)) && pending_msb.is_some(),
            "C14 two messages only for an increment/decrement that follows a pending MSB"
        );
        check!(
            out[0].unwrap().data_type() == DataType::DataEntry && out[1].unwrap().data_type() != DataType::DataEntry,
            "C14 the data entry first, then the increment/decrement"
        );
    }
    let mut i = 0;
    while i < 2 {
        if let Some(m) = &out[i] {
            check!(m.channel().get() == ch, "C14 C15 every reported message carries the channel of the triggering call");
            check!(nr.is_some(), "C14 nothing is reported before a number is complete");
            let (n, r) = nr.unwrap();
            check!(m.number().get() == n && m.is_registered() == r, "C14 number and registered flag are those of the latest number bytes received before the call");
            match (m.data_type(), m.is_14_bit()) {
                (DataType::DataEntry, false) => {
                    check!(pending_msb == Some(m.value().get() as u8) && m.value().get() <= 127, "C14 a 7-bit value is the most recent unreported controller-6 byte");
                }
                (DataType::DataEntry, true) => {
                    let (vm, vl) = (o::hi7(m.value().get()), o::lo7(m.value().get()));
                    let ok = match (pre.val, d1) {
                        (Val::Pending { is_msb: true, byte, .. }, Some(38)) => vm == byte && vl == d2,
                        (Val::Pending { is_msb: false, byte, .. }, Some(6)) => vm == d2 && vl == byte,
                        (Val::Done14 { msb, .. }, Some(38)) => vm == msb && vl == d2,
                        _ => false,
                    };
                    check!(ok, "C14 a 14-bit value consists of the most recent controller-6 and controller-38 bytes up to and including the current message");
                }
                _ => {
                    check!(
                        (m.data_type() == DataType::DataIncrement && d1 == Some(96)) || (m.data_type() == DataType::DataDecrement && d1 == Some(97)),
                        "C14 increment/decrement is reported only for controller 96/97"
                    );
                    check!(m.value().get() == d2 as u16 && !m.is_14_bit(), "C14 increment/decrement carries the current message's value");
                }
            }
        }
        i += 1;
    }
    // an unreported controller-6 byte is reported by the next contributing message / expired poll
    if let Some(b) = pending_msb {
        let contributing = d1.map_or(false, o::is_pn_controller);
        if contributing || poll_expired {
            let reported = match &out[0] {
                Some(m) => {
                    if m.is_14_bit() {
                        o::hi7(m.value().get()) == b
                    } else {
                        m.data_type() == DataType::DataEntry && m.value().get() == b as u16
                    }
                }
                None => false,
            };
            check!(reported, "C14 a pending controller-6 byte is reported no later than the next contributing message or the first poll after the timeout");
        }
    }
}

/// Inductive feed step: any state of the family, any timeout, any Control Change on channel
/// `ch` at any time `now` not before the pending arrivals.
pub fn step_feed<N: Nd>(nd: &mut N, mask: u16, ch: u8) {
    let timeout = any_t(nd);
    let mut a = any_obs(nd, mask);
    let now = any_t(nd);
    nd.assume(valid_at(&a, now));
    let base = gen_except(&a, timeout, ch);
    let mut s = gen_on(&base, ch, &a.ch[ch as usize]);
    let d1 = nd.u8_le(127);
    let d2 = nd.u8_le(127);
    // look-ahead instant for the polls after the step (see below)
    let t2 = any_t(nd);
    nd.assume(now.le(t2));
    #[cfg(not(kani))]
    nd.capture(crate::attrib::Ctx::Poll {
        s,
        a,
        timeout,
        ch,
        events: vec![(ch, Some((d1, d2)), now), (ch, None, t2), (ch ^ 1, None, t2)],
    });
    set_now(now.dur());
    let out = s.feed(&cc(ch, d1, d2));
    check_msg_range(&out[0]);
    check_msg_range(&out[1]);
    let pre = a.ch[ch as usize];
    let e = spec_feed(&mut a.ch[ch as usize], d1, d2, now);
    let post_obs = a.ch[ch as usize];
    // one comparison of whole scanners only (derived PartialEq over 16 channels is the costly part)
    let post_ok = s == gen_on(&base, ch, &post_obs);
    let out_ok0 = same(&out[0], ch, e[0]);
    let out_ok1 = same(&out[1], ch, e[1]);
    let corner = open_corner(&pre, d1);
    // Look-ahead inside the solver: a poll of the step channel and of its neighbour at any later
    // instant must answer what the observer prescribes. This makes the solver look for instances
    // in which a deviation of the post-state is *behaviourally visible* (e.g. a stale arrival time
    // only shows for timeouts that can actually expire). Evaluated here, asserted below in an order
    // that puts the behaviourally visible deviations first (Kani assumes an assertion after
    // checking it, so an earlier failing assertion hides the later ones for the same input).
    set_now(t2.dur());
    let o2 = s.poll(chv(ch));
    let e2 = spec_poll(&mut a.ch[ch as usize], t2, timeout);
    let look_ok2 = same(&o2, ch, e2);
    let o3 = s.poll(chv(ch ^ 1));
    let e3 = spec_poll(&mut a.ch[(ch ^ 1) as usize], t2, timeout);
    let look_ok3 = same(&o3, ch ^ 1, e3);
    // 1. clauses of C14 on the real outputs, independent of the observer's transition function
    c14_clauses(&pre, ch, Some(d1), d2, &out, false);
    // 2. non-contributing controllers (C16)
    if !o::is_pn_controller(d1) {
        check!(out[0].is_none() && out[1].is_none(), "C16 controller outside 6, 38, 96-101 reports nothing");
        // the observer does not move, so the expected post-state is the pre-state
        check!(post_obs == pre && post_ok, "C16 controller outside 6, 38, 96-101 leaves the scanner in an equal state");
    }
    // 3. conformance with the observer: outputs, look-ahead, post-state
    if corner {
        check!(out_ok0 && out_ok1 && post_ok && look_ok2 && look_ok3, "harness: behaviour changed in a corner (LSB followed by LSB or inc/dec) that C12-C14 leave open; the observer must be updated");
    } else {
        check!(out_ok0, "C12 C13 C14 C15 [conformance] first reported message is exactly the intended one");
        check!(out_ok1, "C12 C13 C14 C15 [conformance] second reported message is exactly the intended one");
        check!(look_ok2, "C12 C13 C14 C15 [conformance] a later poll of the step channel answers what the observer prescribes");
        check!(look_ok3, "C12 C13 C14 C15 [conformance] a later poll of the neighbour channel answers what the observer prescribes");
        check!(post_ok, "C12 C13 C14 C15 C16 [conformance] post-state is the state of the advanced observer (only the addressed channel changes, arrival stamped with the current time)");
    }
    witness!(nd, o2.is_some(), "look-ahead poll reports");
    witness!(nd, out[1].is_some(), "two messages");
    witness!(nd, out[0].map_or(false, |m| m.is_14_bit()), "14-bit report");
    witness!(nd, out[0].is_some() && d1 >= 98, "flush by a number byte");
    witness!(nd, d1 == 6 && out[0].is_none() && number_of(&pre.num).is_some(), "MSB becomes pending");
}

/// Inductive poll step (C13): poll(ch) at any time from any state of the family.
pub fn step_poll<N: Nd>(nd: &mut N, mask: u16, ch: u8) {
    let timeout = any_t(nd);
    let mut a = any_obs(nd, mask);
    let now = any_t(nd);
    nd.assume(valid_at(&a, now));
    let base = gen_except(&a, timeout, ch);
    let mut s = gen_on(&base, ch, &a.ch[ch as usize]);
    // look-ahead instants (non-decreasing): a second poll of the channel, a poll of its neighbour
    let later = any_t(nd);
    let t2 = any_t(nd);
    nd.assume(now.le(later) && later.le(t2));
    #[cfg(not(kani))]
    nd.capture(crate::attrib::Ctx::Poll {
        s,
        a,
        timeout,
        ch,
        events: vec![(ch, None, now), (ch, None, later), (ch ^ 1, None, t2)],
    });
    set_now(now.dur());
    let out = s.poll(chv(ch));
    check_msg_range(&out);
    let pre = a.ch[ch as usize];
    let pend = match (number_of(&pre.num), pre.val) {
        (Some(_), Val::Pending { is_msb, byte, t }) => Some((is_msb, byte, t)),
        _ => None,
    };
    let exp = pend.map_or(false, |(_, _, t)| expired(now, t, timeout));
    if out.is_some() {
        check!(pend.map_or(false, |(m, _, _)| m), "C13 poll returns a message only if a data entry MSB is pending");
        check!(exp, "C13 poll returns a message only if at least the timeout has passed since the MSB was fed");
    }
    let e = spec_poll(&mut a.ch[ch as usize], now, timeout);
    let post_obs = a.ch[ch as usize];
    let post_ok = s == gen_on(&base, ch, &post_obs);
    // look-ahead inside the solver (evaluated here, asserted below): a second poll of the same
    // channel at any later time, and a later poll of the neighbour channel
    set_now(later.dur());
    let again = s.poll(chv(ch));
    set_now(t2.dur());
    let o3 = s.poll(chv(ch ^ 1));
    let e3 = spec_poll(&mut a.ch[(ch ^ 1) as usize], t2, timeout);
    let look_ok3 = same(&o3, ch ^ 1, e3);
    if !exp {
        check!(out.is_none(), "C13 a poll before the timeout returns nothing");
        // the observer does not move, so the expected post-state is the pre-state
        check!(post_obs == pre && post_ok, "C13 a poll before the timeout has no effect");
    }
    if let Some((false, _, _)) = pend {
        check!(out.is_none(), "C13 an unpaired data entry LSB is never reported");
    }
    c14_clauses(&pre, ch, None, 0, &[out, None], exp);
    check!(same(&out, ch, e), "C13 C12 C14 C15 [conformance] poll returns exactly the pending 7-bit message once the timeout has passed");
    if exp {
        // consumed: a further poll (at any later time) returns nothing until new input arrives
        check!(again.is_none(), "C13 further polls return nothing until new input arrives");
    }
    check!(look_ok3, "C13 C12 C14 C15 [conformance] a later poll of the neighbour channel answers what the observer prescribes");
    check!(post_ok, "C13 C12 C14 C15 [conformance] post-state of poll is the state of the advanced observer (pending value consumed exactly when the timeout has passed)");
    witness!(nd, out.is_some(), "poll reported");
    witness!(nd, pend.map_or(false, |(m, _, _)| m) && !exp, "pending MSB, timeout not reached");
    witness!(nd, pend.map_or(false, |(m, _, _)| !m) && exp, "pending LSB dropped");
    witness!(nd, timeout.s == 0 && timeout.n == 0 && out.is_some(), "zero timeout");
}

/// The mere passage of time never changes what feed returns (C13).
pub fn feed_time_independent<N: Nd>(nd: &mut N, mask: u16, ch: u8) {
    let timeout = any_t(nd);
    let a = any_obs(nd, mask);
    let t1 = any_t(nd);
    let t2 = any_t(nd);
    nd.assume(valid_at(&a, t1) && valid_at(&a, t2));
    let mut s1 = gen(&a, timeout);
    let mut s2 = s1;
    let d1 = nd.u8_le(127);
    let d2 = nd.u8_le(127);
    set_now(t1.dur());
    let o1 = s1.feed(&cc(ch, d1, d2));
    set_now(t2.dur());
    let o2 = s2.feed(&cc(ch, d1, d2));
    check!(o1 == o2, "C13 the passage of time never changes what feed returns");
    witness!(nd, o1[0].is_some() && t1 != t2, "report at two different instants");
}

/// Step with any message that is not a Control Change: nothing reported, state equal.
pub fn step_other<N: Nd>(nd: &mut N, mask: u16) {
    let timeout = any_t(nd);
    let a = any_obs(nd, mask);
    let now = any_t(nd);
    nd.assume(valid_at(&a, now));
    let mut s = gen(&a, timeout);
    let before = s;
    let t = any_valid_triple(nd);
    nd.assume(t.0 & 0xF0 != 0xB0);
    set_now(now.dur());
    let out = s.feed(&raw_of(t));
    check!(out[0].is_none() && out[1].is_none(), "C16 C15 a message that is not a Control Change reports nothing");
    check!(s == before, "C16 C15 a message that is not a Control Change leaves the scanner in an equal state");
    let out2 = s.feed(&raw_of(t).to_structured());
    check!(out2[0].is_none() && out2[1].is_none() && s == before, "C16 C15 same for the structured representation");
    witness!(nd, t.0 >= 0xF0, "system message");
    witness!(nd, t.0 < 0xB0, "channel voice message");
}

pub fn reset_and_copy<N: Nd>(nd: &mut N, mask: u16) {
    let timeout = any_t(nd);
    let a = any_obs(nd, mask);
    let now = any_t(nd);
    nd.assume(valid_at(&a, now));
    let mut s = gen(&a, timeout);
    let copy = s;
    check!(gen(&EMPTY, timeout) == Scanner::new(timeout.dur()), "C12 base case: the empty observer is the new scanner");
    check!(Scanner::default() == Scanner::new(Duration::from_secs(0)), "C17 default() equals new with a zero timeout");
    let c = nd.u8_le(15);
    let d1 = nd.u8_le(127);
    let d2 = nd.u8_le(127);
    let m = cc(c, d1, d2);
    let mut s2 = copy;
    set_now(now.dur());
    let o1 = s.feed(&m);
    check!(s2 == copy, "C17 stepping the original leaves the copy untouched");
    let o2 = s2.feed(&m);
    check!(o1 == o2 && s == s2, "C17 a copy evolves identically");
    s.reset();
    check!(s == Scanner::new(timeout.dur()), "C17 C13 after reset() the scanner equals a new one with the same timeout");
    witness!(nd, copy != Scanner::new(timeout.dur()), "non-initial state");
    witness!(nd, timeout.s > 0, "non-zero timeout");
}

/// C12 "consequently": any ParameterNumberMessage, either byte order, fed from any state of the
/// family (at non-decreasing times) and polled after the timeout reports exactly that message,
/// preceded at most by the flush of a value still pending from earlier traffic.
pub fn roundtrip<N: Nd>(nd: &mut N, mask: u16, ch: u8, kind: u8) {
    let timeout = any_t(nd);
    let a = any_obs(nd, mask);
    let t0 = any_t(nd);
    nd.assume(valid_at(&a, t0));
    let mut s = gen(&a, timeout);
    let number = nd.u16_le(16383);
    let value = if kind == 1 { nd.u16_le(16383) } else { nd.u8_le(127) as u16 };
    let reg = nd.bool();
    let lsb_first = nd.bool();
    let msg = build(ch, number, value, reg, kind);
    let order = if lsb_first {
        DataEntryByteOrder::LsbFirst
    } else {
        DataEntryByteOrder::MsbFirst
    };
    let enc: [Option<RawShortMessage>; 4] = msg.to_short_messages(order);
    let pre = a.ch[ch as usize];
    let flush = match (number_of(&pre.num), pre.val) {
        (Some((n, r)), Val::Pending { is_msb: true, byte, .. }) => Some(build(ch, n, byte as u16, r, 0)),
        _ => None,
    };
    // feed at arbitrary non-decreasing instants
    let t1 = any_t(nd);
    let t2 = any_t(nd);
    let t3 = any_t(nd);
    let t4 = any_t(nd);
    nd.assume(t0.le(t1) && t1.le(t2) && t2.le(t3) && t3.le(t4));
    let times = [t1, t2, t3, t4];
    let mut seen_msg = 0;
    let mut i = 0;
    while i < 4 {
        if let Some(m) = &enc[i] {
            set_now(times[i].dur());
            let out = s.feed(m);
            if i == 0 {
                check!(out[0] == flush && out[1].is_none(), "C12 the first number byte reports at most the flush of a value pending from earlier traffic");
            } else {
                let mut j = 0;
                while j < 2 {
                    if let Some(x) = out[j] {
                        check!(x == msg, "C12 only the fed message is reported");
                        seen_msg += 1;
                    }
                    j += 1;
                }
            }
        }
        i += 1;
    }
    // poll once the timeout has passed since the last byte
    let last = if kind == 1 { t4 } else { t3 };
    let tp = any_t(nd);
    nd.assume(last.le(tp) && expired(tp, last, timeout));
    set_now(tp.dur());
    let p = s.poll(chv(ch));
    if let Some(x) = p {
        check!(x == msg, "C12 only the fed message is reported by poll");
        seen_msg += 1;
    }
    check!(seen_msg == 1, "C12 feeding the encoding and polling after the timeout reports exactly that message, once");
    if kind == 0 {
        check!(p.is_some(), "C12 a lone MSB is reported by the first poll after the timeout");
    }
    witness!(nd, flush.is_some(), "flush of an earlier pending value");
    witness!(nd, lsb_first, "LSB first");
    witness!(nd, !lsb_first, "MSB first");
}

fn pn_controller(which: u8) -> u8 {
    match which {
        0 => 98,
        1 => 99,
        2 => 100,
        3 => 101,
        4 => 38,
        5 => 6,
        6 => 96,
        _ => 97,
    }
}

struct Log {
    m: [Option<Pnm>; 12],
    n: usize,
}

impl Log {
    fn new() -> Log {
        Log { m: [None; 12], n: 0 }
    }
    fn push(&mut self, x: Option<Pnm>) {
        if let Some(v) = x {
            if self.n < 12 {
                self.m[self.n] = Some(v);
            }
            self.n += 1;
        }
    }
    fn push2(&mut self, x: [Option<Pnm>; 2]) {
        check!(x[0].is_some() || x[1].is_none(), "C14 never a second message without a first");
        self.push(x[0]);
        self.push(x[1]);
    }
}

/// C12 (b): literal sentences of the documented grammar on channel `ch` from a new scanner:
/// number selection x,y in either order, then 3 units chosen among
/// A = MSB alone, B = MSB,LSB, C = further LSB after a 14-bit value, D = LSB,MSB directly after
/// x,y, E = increment/decrement - with optional early polls (before the timeout), optional
/// non-contributing messages between units, arbitrary non-decreasing time stamps, and a final
/// poll after the timeout. The reported messages are exactly the intended ones, once, in order.
pub fn sentences<N: Nd>(nd: &mut N, ch: u8) {
    let timeout = any_t(nd);
    let mut s = Scanner::new(timeout.dur());
    let number = nd.u16_le(16383);
    let reg = nd.bool();
    let msb_first = nd.bool();
    let mut now = any_t(nd);
    let (cm, cl) = if reg { (101, 100) } else { (99, 98) };
    set_now(now.dur());
    let (r1, r2) = if msb_first {
        (s.feed(&cc(ch, cm, o::hi7(number))), s.feed(&cc(ch, cl, o::lo7(number))))
    } else {
        (s.feed(&cc(ch, cl, o::lo7(number))), s.feed(&cc(ch, cm, o::hi7(number))))
    };
    check!(none2(&r1) && none2(&r2), "C12 C14 the number selection reports nothing");
    let mut seen = Log::new();
    let mut want = Log::new();
    let mut have14: Option<u8> = None;
    let mut pending: Option<T> = None;
    let mut k = 0;
    while k < 3 {
        let unit = nd.u8_le(4);
        nd.assume(unit != 2 || have14.is_some());
        nd.assume(unit != 3 || k == 0);
        // optional early poll: before the timeout of a pending MSB it returns nothing
        let t = any_t(nd);
        nd.assume(now.le(t));
        now = t;
        if nd.bool() {
            nd.assume(pending.map_or(true, |p| !expired(now, p, timeout)));
            set_now(now.dur());
            check!(s.poll(chv(ch)).is_none(), "C12 C13 an early poll reports nothing");
        }
        // optional non-contributing message
        if nd.bool() {
            let dn = nd.u8_le(127);
            let dv = nd.u8_le(127);
            nd.assume(!o::is_pn_controller(dn));
            set_now(now.dur());
            let r = s.feed(&cc(ch, dn, dv));
            check!(none2(&r), "C16 C12 a non-contributing message reports nothing");
        }
        let w = nd.u8_le(127);
        let l = nd.u8_le(127);
        set_now(now.dur());
        match unit {
            0 => {
                seen.push2(s.feed(&cc(ch, 6, w)));
                want.push(Some(build(ch, number, w as u16, reg, 0)));
                have14 = None;
                pending = Some(now);
            }
            1 => {
                seen.push2(s.feed(&cc(ch, 6, w)));
                seen.push2(s.feed(&cc(ch, 38, l)));
                want.push(Some(build(ch, number, o::join14(w, l), reg, 1)));
                have14 = Some(w);
                pending = None;
            }
            2 => {
                seen.push2(s.feed(&cc(ch, 38, l)));
                want.push(Some(build(ch, number, o::join14(have14.unwrap(), l), reg, 1)));
                pending = None;
            }
            3 => {
                seen.push2(s.feed(&cc(ch, 38, l)));
                seen.push2(s.feed(&cc(ch, 6, w)));
                want.push(Some(build(ch, number, o::join14(w, l), reg, 1)));
                have14 = Some(w);
                pending = None;
            }
            _ => {
                let dec = nd.bool();
                seen.push2(s.feed(&cc(ch, if dec { 97 } else { 96 }, w)));
                want.push(Some(build(ch, number, w as u16, reg, if dec { 3 } else { 2 })));
                have14 = None;
                pending = None;
            }
        }
        k += 1;
    }
    // final poll once the timeout has passed
    let t = any_t(nd);
    nd.assume(now.le(t) && pending.map_or(true, |p| expired(t, p, timeout)));
    set_now(t.dur());
    seen.push(s.poll(chv(ch)));
    check!(seen.n == want.n, "C12 every intended message is reported exactly once (count)");
    let mut i = 0;
    while i < 12 {
        check!(seen.m[i] == want.m[i], "C12 the reported messages are exactly the intended ones, in order");
        i += 1;
    }
    witness!(nd, want.n == 3 && pending.is_some(), "sentence ending in a lone MSB");
    witness!(nd, have14.is_some() && k == 3, "sentence ending in a 14-bit value");
}

/// C15 literal: both channels get a number selection (symbolic values), then 2 symbolic events
/// (data entry MSB, data entry LSB, increment, or poll - at arbitrary non-decreasing times) on
/// either channel, interleaved into one scanner vs. split to two own scanners.
pub fn interleave<N: Nd>(nd: &mut N, c1: u8, c2: u8) {
    let timeout = any_t(nd);
    let mut both = Scanner::new(timeout.dur());
    let mut own1 = both;
    let mut own2 = both;
    let mut now = any_t(nd);
    set_now(now.dur());
    let (m1, l1, m2, l2) = (nd.u8_le(127), nd.u8_le(127), nd.u8_le(127), nd.u8_le(127));
    check!(none2(&both.feed(&scc(c1, 99, m1))) && none2(&own1.feed(&scc(c1, 99, m1))), "C14 nothing is reported before a number is complete");
    check!(none2(&both.feed(&scc(c2, 101, m2))) && none2(&own2.feed(&scc(c2, 101, m2))), "C14 nothing is reported before a number is complete");
    check!(none2(&both.feed(&scc(c1, 98, l1))) && none2(&own1.feed(&scc(c1, 98, l1))), "C14 nothing is reported before a number is complete");
    check!(none2(&both.feed(&scc(c2, 100, l2))) && none2(&own2.feed(&scc(c2, 100, l2))), "C14 nothing is reported before a number is complete");
    let mut reported = 0;
    let mut k = 0;
    while k < 2 {
        let first = nd.bool();
        let kind = nd.u8_le(3);
        let d2 = nd.u8_le(127);
        let t = any_t(nd);
        nd.assume(now.le(t));
        now = t;
        set_now(now.dur());
        let c = if first { c1 } else { c2 };
        if kind == 3 {
            let o_both = both.poll(chv(c));
            let o_own = if first { own1.poll(chv(c)) } else { own2.poll(chv(c)) };
            check!(o_both == o_own, "C15 interleaved stream: poll reports what the channel's own scanner reports");
            if let Some(x) = o_both {
                check!(x.channel().get() == c, "C15 reported channel is the polled channel");
                reported += 1;
            }
        } else {
            let m = match kind {
                0 => scc(c, 6, d2),
                1 => scc(c, 38, d2),
                _ => scc(c, 96, d2),
            };
            let o_both = both.feed(&m);
            let o_own = if first { own1.feed(&m) } else { own2.feed(&m) };
            check!(o_both == o_own, "C15 interleaved stream reports what the channel's own scanner reports");
            if let Some(x) = o_both[0] {
                check!(x.channel().get() == c, "C15 reported channel is the input's channel");
                reported += 1;
            }
        }
        k += 1;
    }
    witness!(nd, reported >= 1, "a report");
}

/// Literal bounded cross-check of the induction: from new(timeout), 4 arbitrary events on two
/// channels - any contributing Control Change, a poll, or reset - at arbitrary non-decreasing
/// times; every output equals what the observer's transition functions prescribe.
pub fn literal<N: Nd>(nd: &mut N, c1: u8, c2: u8) {
    let timeout = any_t(nd);
    let mut s = Scanner::new(timeout.dur());
    let mut a = EMPTY;
    let mut now = any_t(nd);
    let mut reported = 0;
    let mut k = 0;
    while k < 4 {
        let first = nd.bool();
        let which = nd.u8_le(9);
        let d2 = nd.u8_le(127);
        let t = any_t(nd);
        nd.assume(now.le(t));
        now = t;
        set_now(now.dur());
        let c = if first { c1 } else { c2 };
        if which == 9 {
            s.reset();
            a = EMPTY;
        } else if which == 8 {
            let out = s.poll(chv(c));
            let e = spec_poll(&mut a.ch[c as usize], now, timeout);
            check!(same(&out, c, e), "C12 C13 literal history: poll output equals the observer's");
            if out.is_some() {
                reported += 1;
            }
        } else {
            // one call site per controller: the controller number stays concrete on every path
            let out = match which {
                0 => s.feed(&scc(c, 98, d2)),
                1 => s.feed(&scc(c, 99, d2)),
                2 => s.feed(&scc(c, 100, d2)),
                3 => s.feed(&scc(c, 101, d2)),
                4 => s.feed(&scc(c, 38, d2)),
                5 => s.feed(&scc(c, 6, d2)),
                6 => s.feed(&scc(c, 96, d2)),
                _ => s.feed(&scc(c, 97, d2)),
            };
            let e = spec_feed(&mut a.ch[c as usize], pn_controller(which), d2, now);
            check!(same(&out[0], c, e[0]) && same(&out[1], c, e[1]), "C12 literal history: feed output equals the observer's");
            if out[0].is_some() {
                reported += 1;
            }
        }
        k += 1;
    }
    witness!(nd, reported >= 1, "a report within 4 events");
}

/// Witness twin: claims poll never reports.
pub fn twin<N: Nd>(nd: &mut N) {
    let timeout = any_t(nd);
    let a = any_obs(nd, 1);
    let now = any_t(nd);
    nd.assume(valid_at(&a, now));
    let mut s = gen(&a, timeout);
    set_now(now.dur());
    check!(s.poll(chv(0)).is_none(), "twin: deliberately false");
}
