//! C01 - short messages preserve their bytes: lossless, canonical round trips.
use crate::dom::*;
use crate::check;
use crate::nd::Nd;
use crate::oracle as o;
use crate::witness;
use core::convert::TryFrom;
use helgoboss_midi::*;

fn bytes_u8(b: (u8, U7, U7)) -> (u8, u8, u8) {
    (b.0, b.1.get(), b.2.get())
}

/// `RawShortMessage::from_bytes` / `TryFrom`: accepted iff status >= 0x80, bytes verbatim.
pub fn from_bytes_raw<N: Nd>(nd: &mut N) {
    let t = any_triple(nd);
    let r = RawShortMessage::from_bytes(bytes_of(t));
    check!(r.is_ok() == (t.0 >= 0x80), "C01 raw from_bytes accepts iff status >= 0x80");
    let r2 = RawShortMessage::try_from(bytes_of(t));
    check!(r2.is_ok() == r.is_ok(), "C01 raw TryFrom agrees with from_bytes");
    if let Ok(m) = r {
        witness!(nd, true, "accepted");
        check!(m.status_byte() == t.0, "C01 raw status byte verbatim");
        check!(m.data_byte_1().get() == t.1, "C01 raw data byte 1 verbatim");
        check!(m.data_byte_2().get() == t.2, "C01 raw data byte 2 verbatim");
        check!(bytes_u8(m.to_bytes()) == t, "C01 raw to_bytes verbatim");
        let tup: (u8, U7, U7) = m.into();
        check!(bytes_u8(tup) == t, "C01 raw Into<(u8,U7,U7)> verbatim");
        check!(r2.ok().unwrap() == m, "C01 raw TryFrom equals from_bytes");
    } else {
        witness!(nd, true, "rejected");
    }
}

/// `StructuredShortMessage::from_bytes`: accepted iff status >= 0x80, bytes canonicalised.
pub fn from_bytes_structured<N: Nd>(nd: &mut N) {
    let t = any_triple(nd);
    let r = StructuredShortMessage::from_bytes(bytes_of(t));
    check!(r.is_ok() == (t.0 >= 0x80), "C01 structured from_bytes accepts iff status >= 0x80");
    if let Ok(m) = r {
        witness!(nd, true, "accepted");
        let c = o::canon(t.0, t.1, t.2);
        check!(m.status_byte() == c.0, "C01 structured status byte");
        check!(m.data_byte_1().get() == c.1, "C01 structured data byte 1 canonical");
        check!(m.data_byte_2().get() == c.2, "C01 structured data byte 2 canonical");
        check!(bytes_u8(m.to_bytes()) == c, "C01 structured to_bytes canonical");
        witness!(nd, c != t, "canonicalisation changed something");
    } else {
        witness!(nd, true, "rejected");
    }
}

/// Third-party factory implementors: accepted iff status >= 0x80, bytes verbatim.
pub fn from_bytes_foreign<N: Nd>(nd: &mut N) {
    let t = any_triple(nd);
    let r = Foreign::from_bytes(bytes_of(t));
    check!(r.is_ok() == (t.0 >= 0x80), "C01 foreign from_bytes accepts iff status >= 0x80");
    if let Ok(m) = r {
        witness!(nd, true, "accepted");
        check!(bytes_u8(m.to_bytes()) == t, "C01 foreign to_bytes verbatim");
    }
    let r = ForeignBytes::from_bytes(bytes_of(t));
    check!(r.is_ok() == (t.0 >= 0x80), "C01 foreign(2) from_bytes accepts iff status >= 0x80");
    if let Ok(m) = r {
        check!(bytes_u8(m.to_bytes()) == t, "C01 foreign(2) to_bytes verbatim");
        check!(
            (m.status_byte(), m.data_byte_1().get(), m.data_byte_2().get()) == t,
            "C01 foreign(2) getters verbatim"
        );
    }
}

/// Every value of `StructuredShortMessage` survives conversion to bytes, to raw and back.
pub fn structured_values<N: Nd>(nd: &mut N, variant: u8) {
    let (v, t) = structured_of_variant(nd, variant);
    let b = v.to_bytes();
    check!(b.0 >= 0x80, "C01 structured value has a valid status byte");
    check!(bytes_u8(b) == t, "C01 structured value reports its canonical bytes");
    check!(
        (v.status_byte(), v.data_byte_1().get(), v.data_byte_2().get()) == t,
        "C01 structured getters agree with to_bytes"
    );
    check!(o::canon(t.0, t.1, t.2) == t, "harness: expected triple is canonical");
    let back = StructuredShortMessage::from_bytes(b);
    check!(back.is_ok(), "C01 structured bytes are accepted");
    check!(back.ok().unwrap() == v, "C01 from_bytes(to_bytes(v)) == v");
    let raw: RawShortMessage = v.to_other();
    check!(bytes_u8(raw.to_bytes()) == t, "C01 structured -> raw keeps the bytes");
    check!(raw.to_structured() == v, "C01 structured -> raw -> structured == v");
    check!(StructuredShortMessage::from_other(&v) == v, "C01 from_other(v) == v");
    check!(v.to_structured() == v, "C01 to_structured is the identity on structured");
    let same: StructuredShortMessage = v.to_other();
    check!(same == v, "C01 to_other::<Structured> is the identity");
    let f: Foreign = v.to_other();
    check!(f.to_structured() == v, "C01 structured -> foreign -> structured == v");
    check!(RawShortMessage::from_other(&v) == raw, "C01 Raw::from_other == to_other");
    witness!(nd, true, "value built");
}

/// raw -> structured -> raw -> structured is idempotent and the second raw is canonical.
pub fn raw_structured_raw<N: Nd>(nd: &mut N) {
    let t = any_valid_triple(nd);
    let r1 = raw_of(t);
    let s1 = r1.to_structured();
    let r2: RawShortMessage = s1.to_other();
    let s2 = r2.to_structured();
    let c = o::canon(t.0, t.1, t.2);
    check!(bytes_u8(r2.to_bytes()) == c, "C01 raw->structured->raw is canonical");
    check!(s1 == s2, "C01 raw->structured->raw->structured is idempotent");
    let r3: RawShortMessage = s2.to_other();
    check!(r3 == r2, "C01 second round trip changes nothing");
    check!(s1 == expected_structured(t), "C01 structured form follows the table");
    check!(StructuredShortMessage::from_other(&r1) == s1, "C01 from_other(raw) == to_structured");
    // nothing meaningful lost: the canonical raw differs from the original only where the
    // message type carries no information
    if o::uses_d1(t.0) && !(o::type_byte(t.0) == 0xF1 && (t.1 >> 4) == 7) {
        check!(c.1 == t.1, "C01 used data byte 1 preserved");
    }
    if o::uses_d2(t.0) {
        check!(c.2 == t.2, "C01 used data byte 2 preserved");
    }
    witness!(nd, c != t, "lossy-looking case");
    witness!(nd, c == t, "already canonical case");
}

/// `TimeCodeQuarterFrame` <-> `U7`, both directions, on all 128 bytes / all 120 frames.
pub fn quarter_frame<N: Nd>(nd: &mut N) {
    let b = nd.u8_le(127);
    let f = TimeCodeQuarterFrame::from(u7v(b));
    let back: U7 = f.into();
    let expect = if (b >> 4) == 7 { b & 0x77 } else { b };
    check!(back.get() == expect, "C01 U7 -> frame -> U7 clears only the reserved bit");
    check!(f == quarter_frame_of(b >> 4, b & 15), "C01 frame decoded per nibble table");
    let g = any_quarter_frame(nd);
    let gb: U7 = g.into();
    check!(gb.get() <= 127, "C01 frame byte is 7-bit");
    check!(TimeCodeQuarterFrame::from(gb) == g, "C01 frame -> U7 -> frame is the identity");
    witness!(nd, (b >> 4) == 7 && (b & 8) != 0, "reserved bit set");
}

/// `ShortMessageType` <-> `u8` on all 256 bytes and all 23 types.
pub fn type_u8<N: Nd>(nd: &mut N) {
    let b = nd.u8();
    let r = ShortMessageType::try_from(b);
    check!(r.is_ok() == o::is_type_byte(b), "C01 type byte accepted iff one of the 23");
    if let Ok(t) = r {
        witness!(nd, true, "accepted");
        check!(u8::from(t) == b, "C01 type -> u8 returns the byte");
        check!(type_byte_of(t) == b, "C01 type variant matches the byte");
    }
    let i = nd.u8_le(22);
    let t = type_of_index(i);
    let tb: u8 = t.into();
    check!(tb == o::TYPE_BYTES[i as usize], "C01 type -> u8 follows the table");
    check!(ShortMessageType::try_from(tb).ok() == Some(t), "C01 u8 -> type inverts");
    check!(ShortMessageType::MIN == 0x80 && ShortMessageType::MAX == 0xFF, "C01 type MIN/MAX");
}

/// Witness twin: must be refuted by the solver (status 0x80 is accepted).
pub fn twin<N: Nd>(nd: &mut N) {
    let t = any_triple(nd);
    let r = RawShortMessage::from_bytes(bytes_of(t));
    check!(r.is_ok() == (t.0 > 0x80), "twin: deliberately wrong boundary");
}
