//! Independent re-statement of the MIDI 1.0 tables and encodings the properties refer to.
//! Plain integer arithmetic on primitives; nothing here calls into helgoboss-midi.

/// The byte that identifies the message type of a valid status byte (>= 0x80): the high nibble
/// for channel messages, the whole byte from 0xF0 up.
pub fn type_byte(status: u8) -> u8 {
    if status < 0xF0 {
        status & 0xF0
    } else {
        status
    }
}

pub fn is_valid_status(status: u8) -> bool {
    status >= 0x80
}

pub fn is_channel_status(status: u8) -> bool {
    status >= 0x80 && status < 0xF0
}

/// The 23 valid type bytes.
pub fn is_type_byte(b: u8) -> bool {
    matches!(b, 0x80 | 0x90 | 0xA0 | 0xB0 | 0xC0 | 0xD0 | 0xE0) || b >= 0xF0
}

/// Index 0..=22 of a type byte in declaration order of MIDI 1.0 (and of `ShortMessageType`).
pub const TYPE_BYTES: [u8; 23] = [
    0x80, 0x90, 0xA0, 0xB0, 0xC0, 0xD0, 0xE0, 0xF0, 0xF1, 0xF2, 0xF3, 0xF4, 0xF5, 0xF6, 0xF7, 0xF8,
    0xF9, 0xFA, 0xFB, 0xFC, 0xFD, 0xFE, 0xFF,
];

#[derive(Copy, Clone, PartialEq, Eq, Debug)]
pub enum Cat {
    ChannelVoice,
    ChannelMode,
    SystemCommon,
    SystemRealTime,
    SystemExclusive,
}

/// Super type per the MIDI 1.0 tables. Control Change is Channel Mode for controllers 120-127.
pub fn super_cat(status: u8, d1: u8) -> Cat {
    let t = type_byte(status);
    if t < 0xF0 {
        if t == 0xB0 && d1 >= 120 {
            Cat::ChannelMode
        } else {
            Cat::ChannelVoice
        }
    } else if t == 0xF0 {
        Cat::SystemExclusive
    } else if t <= 0xF7 {
        Cat::SystemCommon
    } else {
        Cat::SystemRealTime
    }
}

/// Fuzzy super type of a type byte: 0 channel, 1 system common, 2 system real time, 3 sysex.
pub fn fuzzy_cat(t: u8) -> u8 {
    if t < 0xF0 {
        0
    } else if t == 0xF0 {
        3
    } else if t <= 0xF7 {
        1
    } else {
        2
    }
}

/// Does the message type use data byte 1 / data byte 2?
pub fn uses_d1(status: u8) -> bool {
    let t = type_byte(status);
    t < 0xF0 || t == 0xF1 || t == 0xF2 || t == 0xF3
}

pub fn uses_d2(status: u8) -> bool {
    let t = type_byte(status);
    matches!(t, 0x80 | 0x90 | 0xA0 | 0xB0 | 0xE0 | 0xF2)
}

/// Canonical form of a valid triple: information-free parts zeroed (unused data bytes, the
/// reserved bit 3 of a time-code 'last' quarter frame).
pub fn canon(status: u8, d1: u8, d2: u8) -> (u8, u8, u8) {
    let t = type_byte(status);
    let mut c1 = if uses_d1(status) { d1 } else { 0 };
    let c2 = if uses_d2(status) { d2 } else { 0 };
    if t == 0xF1 && (c1 >> 4) == 7 {
        c1 &= 0x77;
    }
    (status, c1, c2)
}

pub fn join14(hi: u8, lo: u8) -> u16 {
    (hi as u16) * 128 + (lo as u16)
}

pub fn hi7(v: u16) -> u8 {
    (v / 128) as u8
}

pub fn lo7(v: u16) -> u8 {
    (v % 128) as u8
}

/// Controller numbers that can be part of an (N)RPN message.
pub fn is_pn_controller(n: u8) -> bool {
    n == 6 || n == 38 || (n >= 96 && n <= 101)
}

/// Quarter-frame data byte of a frame kind 0..=7 with nibble / (msbit, type).
pub fn qf_byte(kind: u8, nibble: u8) -> u8 {
    kind * 16 + nibble
}
