//! C05 helpers: parsing, formatting and hashing of the restricted integer types, generic over
//! the type (instantiated per newtype found in /repo by lib/gen.py).
use crate::check;
use crate::nd::Nd;
use crate::witness;
use core::fmt::Write;
use core::hash::{Hash, Hasher};

/// Loop-free byte-recording hasher: equal iff the same sequence of primitive writes.
pub struct Rec {
    acc: u64,
    n: u32,
}

impl Hasher for Rec {
    fn finish(&self) -> u64 {
        self.acc ^ ((self.n as u64) << 56)
    }
    fn write(&mut self, bytes: &[u8]) {
        for b in bytes {
            self.write_u8(*b);
        }
    }
    fn write_u8(&mut self, i: u8) {
        self.acc = self.acc.wrapping_mul(257).wrapping_add(i as u64 + 1);
        self.n += 1;
    }
    fn write_u16(&mut self, i: u16) {
        self.acc = self.acc.wrapping_mul(65537).wrapping_add(i as u64 + 1);
        self.n += 2;
    }
}

pub fn hash_of<T: Hash>(t: &T) -> u64 {
    let mut h = Rec { acc: 0, n: 0 };
    t.hash(&mut h);
    h.finish()
}

/// All ASCII byte strings of length 0..=maxlen (<= MAXLEN <= 9, so that the oracle's u32 value
/// cannot overflow): `parse` accepts exactly the unsigned decimal numerals (digits only,
/// optionally preceded by '+') whose value is <= max, and yields that value.
pub fn parse_all<N: Nd, T: core::str::FromStr + Copy, const MAXLEN: usize>(
    nd: &mut N,
    max: u32,
    maxlen: usize,
    get: fn(T) -> u32,
) {
    let len = nd.usize();
    nd.assume(len <= maxlen && maxlen <= MAXLEN && MAXLEN <= 9);
    let mut buf = [0u8; MAXLEN];
    let mut k = 0;
    while k < MAXLEN {
        let b = nd.u8();
        nd.assume(b < 0x80);
        buf[k] = b;
        k += 1;
    }
    // bytes < 0x80 are valid UTF-8 on their own
    let s = unsafe { core::str::from_utf8_unchecked(&buf[..len]) };
    let r = s.parse::<T>();
    let start = if len > 0 && buf[0] == b'+' { 1 } else { 0 };
    let mut valid = len > start;
    let mut val: u32 = 0;
    let mut j = 0;
    while j < MAXLEN {
        if j >= start && j < len {
            let b = buf[j];
            if b >= b'0' && b <= b'9' {
                val = val * 10 + (b - b'0') as u32;
            } else {
                valid = false;
            }
        }
        j += 1;
    }
    let expect_ok = valid && val <= max;
    match r {
        Ok(v) => {
            check!(get(v) <= max, "C04 C05 parse yields an in-range value");
            check!(expect_ok, "C04 C05 parse accepts only unsigned decimal numerals in range");
            check!(get(v) == val, "C05 parse yields the numeral's value");
        }
        Err(_) => {
            check!(!expect_ok, "C04 C05 parse rejects only non-numerals and out-of-range values");
        }
    }
    witness!(nd, r.is_ok() && len == maxlen && buf[0] == b'+', "accepted '+' numeral of full length");
    witness!(nd, r.is_ok() && len >= 2 && buf[0] == b'0', "accepted leading zero");
    witness!(nd, r.is_err() && len > 1, "rejected non-empty string");
    witness!(nd, r.is_err() && len == 0, "rejected empty string");
}

pub struct Buf {
    pub b: [u8; 8],
    pub n: usize,
    pub overflow: bool,
}

impl Write for Buf {
    fn write_str(&mut self, s: &str) -> core::fmt::Result {
        for c in s.as_bytes() {
            if self.n < 8 {
                self.b[self.n] = *c;
                self.n += 1;
            } else {
                self.overflow = true;
            }
        }
        Ok(())
    }
}

/// `Display` prints the canonical decimal numeral of the value (no sign, no leading zero).
pub fn display_one<N: Nd, T: core::fmt::Display>(nd: &mut N, v: T, value: u32) {
    let mut buf = Buf {
        b: [0; 8],
        n: 0,
        overflow: false,
    };
    let r = write!(buf, "{}", v);
    check!(r.is_ok() && !buf.overflow, "C05 Display succeeds");
    check!(buf.n >= 1 && buf.n <= 5, "C05 Display prints 1 to 5 characters");
    let mut val: u32 = 0;
    let mut j = 0;
    while j < 8 {
        if j < buf.n {
            let b = buf.b[j];
            check!(b >= b'0' && b <= b'9', "C05 Display prints digits only");
            val = val * 10 + (b - b'0') as u32;
        }
        j += 1;
    }
    check!(val == value, "C05 Display prints the decimal value");
    check!(buf.n == 1 || buf.b[0] != b'0', "C05 Display prints no leading zero");
    witness!(nd, buf.n >= 2, "two or more digits");
}
