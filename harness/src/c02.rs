//! C02 - classification and field accessors follow the MIDI 1.0 status table.
use crate::dom::*;
use crate::check;
use crate::nd::Nd;
use crate::oracle as o;
use crate::witness;
use helgoboss_midi::*;

/// A valid triple whose status byte has the given high nibble (8..=15), everything else symbolic.
pub fn triple_with_hi<N: Nd>(nd: &mut N, hi: u8) -> (u8, u8, u8) {
    let lo = nd.u8_le(15);
    let d1 = nd.u8_le(127);
    let d2 = nd.u8_le(127);
    ((hi << 4) | lo, d1, d2)
}

fn check_type_level(obs: &Obs, ty: ShortMessageType) {
    // a message type's own super type / main category agree with those of the message
    let fuzzy = ty.super_type();
    let expect_fuzzy = match obs.super_type {
        MessageSuperType::ChannelVoice | MessageSuperType::ChannelMode => {
            FuzzyMessageSuperType::Channel
        }
        MessageSuperType::SystemCommon => FuzzyMessageSuperType::SystemCommon,
        MessageSuperType::SystemRealTime => FuzzyMessageSuperType::SystemRealTime,
        MessageSuperType::SystemExclusive => FuzzyMessageSuperType::SystemExclusive,
    };
    check!(fuzzy == expect_fuzzy, "C02 type-level super type agrees with the message's");
    check!(
        fuzzy.main_category() == obs.main_category,
        "C02 type-level main category agrees with the message's"
    );
    check!(
        obs.super_type.main_category() == obs.main_category,
        "C02 super type's main category agrees with the message's"
    );
}

/// Every accessor of implementation `imp` (0 raw, 1 structured, 2 foreign, 3 foreign with
/// to_bytes override) against the table, for all valid triples with status high nibble `hi`.
pub fn classify<N: Nd>(nd: &mut N, hi: u8, imp: u8) {
    let t = triple_with_hi(nd, hi);
    let (obs, reported, ty) = match imp {
        0 => {
            let m = raw_of(t);
            (observe(&m), t, m.r#type())
        }
        1 => {
            let m = StructuredShortMessage::from_bytes(bytes_of(t)).ok().unwrap();
            (observe(&m), o::canon(t.0, t.1, t.2), m.r#type())
        }
        2 => {
            let m = Foreign::from_bytes(bytes_of(t)).ok().unwrap();
            (observe(&m), t, m.r#type())
        }
        _ => {
            let m = ForeignBytes::from_bytes(bytes_of(t)).ok().unwrap();
            (observe(&m), t, m.r#type())
        }
    };
    let e = expected_obs(t, reported);
    check!(obs.ty == e.ty, "C02 type is determined by the status byte");
    check!(obs.super_type == e.super_type, "C02 super type follows the MIDI 1.0 table (Channel Mode = CC 120-127)");
    check!(obs.main_category == e.main_category, "C02 main category follows the table");
    check!(obs.channel == e.channel, "C02 channel present exactly for channel messages, = low nibble");
    check!(obs.key_number == e.key_number, "C02 key number accessor");
    check!(obs.velocity == e.velocity, "C02 velocity accessor");
    check!(obs.controller_number == e.controller_number, "C02 controller number accessor");
    check!(obs.control_value == e.control_value, "C02 control value accessor");
    check!(obs.program_number == e.program_number, "C02 program number accessor");
    check!(obs.pressure_amount == e.pressure_amount, "C02 pressure amount accessor");
    check!(obs.pitch_bend_value == e.pitch_bend_value, "C02 pitch bend value = data2 x 128 + data1");
    check!(obs.is_note == e.is_note, "C02 is_note");
    check!(obs.is_note_on == e.is_note_on, "C02 is_note_on treats velocity 0 as note-off");
    check!(obs.is_note_off == e.is_note_off, "C02 is_note_off treats Note On velocity 0 as note-off");
    check!(obs.structured == e.structured, "C02 structured form has the matching variant and fields");
    check!(obs.bytes == e.bytes && obs.to_bytes == e.to_bytes, "C01 C03 reported bytes");
    check_type_level(&obs, ty);
    // C04: everything returned is in range
    check!(
        obs.channel.map_or(true, |c| c <= 15)
            && obs.key_number.map_or(true, |c| c <= 127)
            && obs.velocity.map_or(true, |c| c <= 127)
            && obs.controller_number.map_or(true, |c| c <= 127)
            && obs.control_value.map_or(true, |c| c <= 127)
            && obs.program_number.map_or(true, |c| c <= 127)
            && obs.pressure_amount.map_or(true, |c| c <= 127)
            && obs.pitch_bend_value.map_or(true, |c| c <= 16383),
        "C04 accessor values are in range"
    );
    witness!(nd, t.1 >= 120, "data1 >= 120");
    witness!(nd, t.2 == 0, "data2 == 0");
}

/// Witness twin: Channel Mode starts at controller 121 (wrong) must be refuted.
pub fn twin<N: Nd>(nd: &mut N) {
    let t = triple_with_hi(nd, 0xB);
    let m = raw_of(t);
    let mode = m.super_type() == MessageSuperType::ChannelMode;
    check!(mode == (t.1 >= 122), "twin: deliberately wrong boundary");
}
