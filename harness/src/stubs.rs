//! Replacements for the global allocation entry points (`-Z stubbing`): reaching any of them is
//! a failed check, so "some input reaches a heap allocation" becomes a solver query.
#![allow(unused)]
use core::alloc::Layout;

pub unsafe fn no_alloc(_layout: Layout) -> *mut u8 {
    panic!("heap allocation: alloc");
}

pub unsafe fn no_alloc_zeroed(_layout: Layout) -> *mut u8 {
    panic!("heap allocation: alloc_zeroed");
}

pub unsafe fn no_realloc(_ptr: *mut u8, _layout: Layout, _new_size: usize) -> *mut u8 {
    panic!("heap allocation: realloc");
}
