//! (N)RPN: message encoding (C09), non-polling scanner observer and inductive step (C11),
//! inversion of the encoder and running forms (C10), and the isolation / transparency / reset
//! clauses read off the same step (C15, C16, C17).
use crate::dom::*;
use crate::check;
use crate::nd::Nd;
use crate::oracle as o;
use crate::witness;
use helgoboss_midi::*;

type Scanner = ParameterNumberMessageScanner;
type Pnm = ParameterNumberMessage;

/// kind: 0 = 7-bit data entry, 1 = 14-bit data entry, 2 = increment, 3 = decrement.
pub fn build(c: u8, number: u16, value: u16, reg: bool, kind: u8) -> Pnm {
    let ch = chv(c);
    let n = u14v(number);
    match (reg, kind) {
        (false, 0) => Pnm::non_registered_7_bit(ch, n, u7v(value as u8)),
        (false, 1) => Pnm::non_registered_14_bit(ch, n, u14v(value)),
        (false, 2) => Pnm::non_registered_increment(ch, n, u7v(value as u8)),
        (false, _) => Pnm::non_registered_decrement(ch, n, u7v(value as u8)),
        (true, 0) => Pnm::registered_7_bit(ch, n, u7v(value as u8)),
        (true, 1) => Pnm::registered_14_bit(ch, n, u14v(value)),
        (true, 2) => Pnm::registered_increment(ch, n, u7v(value as u8)),
        (true, _) => Pnm::registered_decrement(ch, n, u7v(value as u8)),
    }
}

pub fn data_type_of(kind: u8) -> DataType {
    match kind {
        0 | 1 => DataType::DataEntry,
        2 => DataType::DataIncrement,
        _ => DataType::DataDecrement,
    }
}

/// A message reports back exactly what it was constructed with.
pub fn check_getters(m: &Pnm, c: u8, number: u16, value: u16, reg: bool, kind: u8, tag_ok: &mut bool) {
    *tag_ok = m.channel().get() == c
        && m.number().get() == number
        && m.value().get() == value
        && m.is_registered() == reg
        && m.is_14_bit() == (kind == 1)
        && m.data_type() == data_type_of(kind);
}

fn b3<M: ShortMessage>(m: &Option<M>) -> Option<(u8, u8, u8)> {
    m.as_ref()
        .map(|m| (m.status_byte(), m.data_byte_1().get(), m.data_byte_2().get()))
}

/// The slots MIDI prescribes (statement of C09).
pub fn expected_slots(c: u8, number: u16, value: u16, reg: bool, kind: u8, lsb_first: bool) -> [Option<(u8, u8, u8)>; 4] {
    let st = 0xB0 | c;
    let s0 = Some((st, if reg { 101 } else { 99 }, o::hi7(number)));
    let s1 = Some((st, if reg { 100 } else { 98 }, o::lo7(number)));
    match kind {
        0 => [s0, s1, Some((st, 6, value as u8)), None],
        1 => {
            let hi = Some((st, 6, o::hi7(value)));
            let lo = Some((st, 38, o::lo7(value)));
            if lsb_first {
                [s0, s1, lo, hi]
            } else {
                [s0, s1, hi, lo]
            }
        }
        2 => [s0, s1, Some((st, 96, value as u8)), None],
        _ => [s0, s1, Some((st, 97, value as u8)), None],
    }
}

/// Any value of the given kind: 7-bit kinds carry values <= 127.
fn any_value<N: Nd>(nd: &mut N, kind: u8) -> u16 {
    if kind == 1 {
        nd.u16_le(16383)
    } else {
        nd.u8_le(127) as u16
    }
}

/// C09: all constructors of one kind x channel x number x value x registered x byte order.
pub fn encode<N: Nd>(nd: &mut N, kind: u8, structured: bool) {
    let c = nd.u8_le(15);
    let number = nd.u16_le(16383);
    let value = any_value(nd, kind);
    let reg = nd.bool();
    let lsb_first = nd.bool();
    let m = build(c, number, value, reg, kind);
    let mut ok = false;
    check_getters(&m, c, number, value, reg, kind, &mut ok);
    check!(ok, "C09 message reports back channel, number, value, registered flag, resolution and data type");
    check!(m.number().get() <= 16383 && m.value().get() <= 16383 && m.channel().get() <= 15, "C04 (N)RPN getters in range");
    check!(m.is_14_bit() || m.value().get() <= 127, "C09 7-bit values are at most 127");
    check!(!m.is_14_bit() || m.data_type() == DataType::DataEntry, "C09 14-bit implies data entry");
    let order = if lsb_first {
        DataEntryByteOrder::LsbFirst
    } else {
        DataEntryByteOrder::MsbFirst
    };
    let e = expected_slots(c, number, value, reg, kind, lsb_first);
    let e_msb_first = expected_slots(c, number, value, reg, kind, false);
    if structured {
        let s: [Option<StructuredShortMessage>; 4] = m.to_short_messages(order);
        check!(
            b3(&s[0]) == e[0] && b3(&s[1]) == e[1] && b3(&s[2]) == e[2] && b3(&s[3]) == e[3],
            "C09 encodes to the well-formed Control Change sequence (structured)"
        );
        let k = 0;
        check!(
            s[k].map_or(true, |x| matches!(x, StructuredShortMessage::ControlChange { .. })),
            "C09 slots are Control Change messages"
        );
        let a: [Option<StructuredShortMessage>; 4] = m.into();
        check!(
            b3(&a[0]) == e_msb_first[0] && b3(&a[1]) == e_msb_first[1] && b3(&a[2]) == e_msb_first[2] && b3(&a[3]) == e_msb_first[3],
            "C09 array conversion equals MSB-first encoding (structured)"
        );
    } else {
        let s: [Option<RawShortMessage>; 4] = m.to_short_messages(order);
        check!(
            b3(&s[0]) == e[0] && b3(&s[1]) == e[1] && b3(&s[2]) == e[2] && b3(&s[3]) == e[3],
            "C09 encodes to the well-formed Control Change sequence (raw)"
        );
        check!(s[3].is_some() == (kind == 1), "C09 exactly the 14-bit messages fill all four slots");
        let a: [Option<RawShortMessage>; 4] = m.into();
        check!(
            b3(&a[0]) == e_msb_first[0] && b3(&a[1]) == e_msb_first[1] && b3(&a[2]) == e_msb_first[2] && b3(&a[3]) == e_msb_first[3],
            "C09 array conversion equals MSB-first encoding (raw)"
        );
    }
    witness!(nd, reg && lsb_first, "registered, LSB first");
    witness!(nd, !reg && !lsb_first && number == 16383, "non-registered, MSB first, maximal number");
}

// ---------------------------------------------------------------------------------------------
// Observer of the non-polling scanner (from the statement of C11)
// ---------------------------------------------------------------------------------------------

#[derive(Copy, Clone, PartialEq, Eq, Debug)]
pub struct ChObs {
    /// latest parameter-number MSB / LSB since creation or reset
    pub msb: Option<u8>,
    pub lsb: Option<u8>,
    /// the most recent number byte was controller 100/101
    pub reg: bool,
    /// controller-38 value received after the most recent number byte
    pub v38: Option<u8>,
}

pub const CH_EMPTY: ChObs = ChObs {
    msb: None,
    lsb: None,
    reg: false,
    v38: None,
};

#[derive(Copy, Clone, PartialEq, Eq, Debug)]
pub struct Obs {
    pub ch: [ChObs; 16],
}

pub const EMPTY: Obs = Obs { ch: [CH_EMPTY; 16] };

pub fn valid(a: &ChObs) -> bool {
    // without any number byte there is no "most recent number byte"
    !(a.msb.is_none() && a.lsb.is_none() && a.reg)
}

pub fn any_ch_obs<N: Nd>(nd: &mut N) -> ChObs {
    let has_msb = nd.bool();
    let has_lsb = nd.bool();
    let has_38 = nd.bool();
    let m = nd.u8_le(127);
    let l = nd.u8_le(127);
    let v = nd.u8_le(127);
    let reg = nd.bool();
    let a = ChObs {
        msb: if has_msb { Some(m) } else { None },
        lsb: if has_lsb { Some(l) } else { None },
        reg,
        v38: if has_38 { Some(v) } else { None },
    };
    nd.assume(valid(&a));
    a
}

pub fn any_obs<N: Nd>(nd: &mut N, mask: u16) -> Obs {
    let mut a = EMPTY;
    let mut c = 0;
    while c < 16 {
        if mask & (1 << c) != 0 {
            a.ch[c] = any_ch_obs(nd);
        }
        c += 1;
    }
    a
}

pub fn cc(c: u8, n: u8, v: u8) -> RawShortMessage {
    RawShortMessage::control_change(chv(c), cnv(n), u7v(v))
}

/// Shortest feed sequence that puts channel `c` of `s` (initial) into abstract state `a`.
pub fn gen_channel(s: &mut Scanner, c: u8, a: &ChObs) {
    if let Some(m) = a.msb {
        let r = if a.reg { s.feed(&cc(c, 101, m)) } else { s.feed(&cc(c, 99, m)) };
        check!(r.is_none(), "C11 a number byte reports nothing");
    }
    if let Some(l) = a.lsb {
        let r = if a.reg { s.feed(&cc(c, 100, l)) } else { s.feed(&cc(c, 98, l)) };
        check!(r.is_none(), "C11 a number byte reports nothing");
    }
    if let Some(v) = a.v38 {
        let r = s.feed(&cc(c, 38, v));
        check!(r.is_none(), "C11 a data entry LSB reports nothing");
    }
}

pub fn gen(a: &Obs) -> Scanner {
    let mut s = Scanner::new();
    let mut c = 0;
    while c < 16 {
        gen_channel(&mut s, c as u8, &a.ch[c]);
        c += 1;
    }
    s
}

/// (channel, number, value, registered, kind) prescribed by C11; advances the observer.
pub fn spec_cc(a: &mut Obs, c: u8, d1: u8, d2: u8) -> Option<(u8, u16, u16, bool, u8)> {
    let x = &mut a.ch[c as usize];
    match d1 {
        98 | 100 => {
            x.lsb = Some(d2);
            x.reg = d1 == 100;
            x.v38 = None;
            None
        }
        99 | 101 => {
            x.msb = Some(d2);
            x.reg = d1 == 101;
            x.v38 = None;
            None
        }
        38 => {
            x.v38 = Some(d2);
            None
        }
        6 | 96 | 97 => match (x.msb, x.lsb) {
            (Some(m), Some(l)) => {
                let number = o::join14(m, l);
                if d1 == 6 {
                    match x.v38 {
                        Some(v) => Some((c, number, o::join14(d2, v), x.reg, 1)),
                        None => Some((c, number, d2 as u16, x.reg, 0)),
                    }
                } else {
                    Some((c, number, d2 as u16, x.reg, if d1 == 96 { 2 } else { 3 }))
                }
            }
            _ => None,
        },
        _ => None,
    }
}

pub fn expect_msg(e: Option<(u8, u16, u16, bool, u8)>) -> Option<Pnm> {
    e.map(|(c, n, v, r, k)| build(c, n, v, r, k))
}

pub fn check_msg_range(m: &Option<Pnm>) {
    if let Some(m) = m {
        check!(
            m.channel().get() <= 15
                && m.number().get() <= 16383
                && m.value().get() <= 16383
                && (m.is_14_bit() || m.value().get() <= 127),
            "C04 scanner output in range"
        );
    }
}

fn same(out: &Option<Pnm>, e: Option<(u8, u16, u16, bool, u8)>) -> bool {
    match (out, e) {
        (None, None) => true,
        (Some(m), Some((c, n, v, r, k))) => {
            let mut ok = false;
            check_getters(m, c, n, v, r, k, &mut ok);
            ok && *m == build(c, n, v, r, k)
        }
        _ => false,
    }
}

/// Inductive step: any state of the family x any Control Change on channel `ch`.
pub fn step_cc<N: Nd>(nd: &mut N, mask: u16, ch: u8) {
    let mut a = any_obs(nd, mask);
    let mut s = gen(&a);
    let before = s;
    let d1 = nd.u8_le(127);
    let d2 = nd.u8_le(127);
    #[cfg(not(kani))]
    nd.capture(crate::attrib::Ctx::Nrpn { s, a, ch, d1, d2 });
    let out = s.feed(&cc(ch, d1, d2));
    check_msg_range(&out);
    let e = spec_cc(&mut a, ch, d1, d2);
    if !o::is_pn_controller(d1) {
        check!(out.is_none(), "C16 C11 controller outside {6,38,96-101} reports nothing");
        check!(s == before, "C16 C11 controller outside {6,38,96-101} leaves the scanner in an equal state");
    }
    if let Some(m) = &out {
        check!(m.channel().get() == ch, "C15 C11 reported message carries the channel of the input");
    }
    check!(out.is_some() == e.is_some(), "C11 C15 [conformance] reports exactly when controller 6/96/97 arrives with a complete number");
    check!(same(&out, e), "C11 C15 [conformance] reported message carries channel, number, registered flag, value and resolution prescribed");
    check!(s == gen(&a), "C11 C15 C16 C10 C17 [conformance] post-state is the state of the advanced observer (only the addressed channel changes)");
    witness!(nd, out.map_or(false, |m| m.is_14_bit()), "14-bit report");
    witness!(nd, out.map_or(false, |m| !m.is_14_bit() && m.data_type() == DataType::DataEntry), "7-bit report");
    witness!(nd, out.map_or(false, |m| m.data_type() == DataType::DataDecrement), "decrement report");
    witness!(nd, d1 == 6 && out.is_none(), "data entry without complete number");
}

/// Step with any message that is not a Control Change: nothing reported, state equal.
pub fn step_other<N: Nd>(nd: &mut N, mask: u16) {
    let a = any_obs(nd, mask);
    let mut s = gen(&a);
    let before = s;
    let t = any_valid_triple(nd);
    nd.assume(t.0 & 0xF0 != 0xB0);
    let out = s.feed(&raw_of(t));
    check!(out.is_none(), "C16 C15 C11 a message that is not a Control Change reports nothing");
    check!(s == before, "C16 C15 C11 a message that is not a Control Change leaves the scanner in an equal state");
    let out2 = s.feed(&raw_of(t).to_structured());
    check!(out2.is_none() && s == before, "C16 C15 C11 same for the structured representation");
    witness!(nd, t.0 >= 0xF0, "system message");
    witness!(nd, t.0 < 0xB0, "channel voice message");
}

pub fn reset_and_copy<N: Nd>(nd: &mut N, mask: u16) {
    let a = any_obs(nd, mask);
    let mut s = gen(&a);
    let copy = s;
    check!(gen(&EMPTY) == Scanner::new(), "C11 base case: the empty observer is the new scanner");
    check!(Scanner::new() == Scanner::default(), "C17 new() equals default()");
    let c = nd.u8_le(15);
    let d1 = nd.u8_le(127);
    let d2 = nd.u8_le(127);
    let m = cc(c, d1, d2);
    let mut s2 = copy;
    let o1 = s.feed(&m);
    check!(s2 == copy, "C17 stepping the original leaves the copy untouched");
    let o2 = s2.feed(&m);
    check!(o1 == o2 && s == s2, "C17 a copy evolves identically");
    s.reset();
    check!(s == Scanner::new(), "C17 C11 after reset() the scanner equals a new one");
    witness!(nd, copy != Scanner::new(), "non-initial state");
}

/// C10: from every state of the family, the encoding of any 7-bit / increment / decrement
/// message (either byte order) or the LSB-first encoding of any 14-bit message yields nothing
/// until the last Control Change and exactly the original message on it.
pub fn inversion<N: Nd>(nd: &mut N, mask: u16, ch: u8, kind: u8) {
    let a = any_obs(nd, mask);
    let mut s = gen(&a);
    let number = nd.u16_le(16383);
    let value = any_value(nd, kind);
    let reg = nd.bool();
    let msg = build(ch, number, value, reg, kind);
    let lsb_first = if kind == 1 { true } else { nd.bool() };
    let order = if lsb_first {
        DataEntryByteOrder::LsbFirst
    } else {
        DataEntryByteOrder::MsbFirst
    };
    let enc: [Option<RawShortMessage>; 4] = msg.to_short_messages(order);
    let last = if kind == 1 { 3 } else { 2 };
    let mut i = 0;
    while i < 4 {
        if let Some(m) = &enc[i] {
            let out = s.feed(m);
            if i < last {
                check!(out.is_none(), "C10 nothing is reported before the last Control Change");
            } else {
                check!(out == Some(msg), "C10 the last Control Change reports exactly the original message");
            }
        } else {
            check!(i > last, "C09 C10 only trailing slots are empty");
        }
        i += 1;
    }
    witness!(nd, a.ch[ch as usize].v38.is_some(), "stale data entry LSB present before");
    witness!(nd, a.ch[ch as usize].reg != reg, "registered kind differs from earlier traffic");
}

/// C10 running forms after one number selection: repeated data bytes each yield a 7-bit (or
/// increment / decrement) message, repeated LSB,MSB pairs each yield a 14-bit message.
pub fn running<N: Nd>(nd: &mut N, mask: u16, ch: u8, form: u8) {
    let a = any_obs(nd, mask);
    let mut s = gen(&a);
    let number = nd.u16_le(16383);
    let reg = nd.bool();
    let (cm, cl) = if reg { (101, 100) } else { (99, 98) };
    // the number selection, in either order
    let msb_first = nd.bool();
    if msb_first {
        check!(s.feed(&cc(ch, cm, o::hi7(number))).is_none(), "C10 number MSB reports nothing");
        check!(s.feed(&cc(ch, cl, o::lo7(number))).is_none(), "C10 number LSB reports nothing");
    } else {
        check!(s.feed(&cc(ch, cl, o::lo7(number))).is_none(), "C10 number LSB reports nothing");
        check!(s.feed(&cc(ch, cm, o::hi7(number))).is_none(), "C10 number MSB reports nothing");
    }
    let mut k = 0;
    while k < 3 {
        let w = nd.u8_le(127);
        let v = nd.u8_le(127);
        match form {
            0 => {
                let out = s.feed(&cc(ch, 6, w));
                check!(out == Some(build(ch, number, w as u16, reg, 0)), "C10 running form: each data byte yields a 7-bit message");
            }
            1 => {
                check!(s.feed(&cc(ch, 38, v)).is_none(), "C10 running form: LSB of a pair reports nothing");
                let out = s.feed(&cc(ch, 6, w));
                check!(out == Some(build(ch, number, o::join14(w, v), reg, 1)), "C10 running form: each LSB,MSB pair yields a 14-bit message");
            }
            _ => {
                let dec = nd.bool();
                let out = s.feed(&cc(ch, if dec { 97 } else { 96 }, w));
                check!(out == Some(build(ch, number, w as u16, reg, if dec { 3 } else { 2 })), "C10 running form: each increment/decrement yields its message");
            }
        }
        k += 1;
    }
    witness!(nd, true, "ran");
}

/// Literal bounded cross-check of the induction: from new(), 4 arbitrary contributing events
/// on two channels (or reset).
pub fn literal<N: Nd>(nd: &mut N, c1: u8, c2: u8) {
    let mut s = Scanner::new();
    let mut a = EMPTY;
    let mut k = 0;
    let mut reported = 0;
    while k < 4 {
        let kind = nd.u8_le(2);
        let which = nd.u8_le(7);
        let d1 = match which {
            0 => 98,
            1 => 99,
            2 => 100,
            3 => 101,
            4 => 38,
            5 => 6,
            6 => 96,
            _ => 97,
        };
        let d2 = nd.u8_le(127);
        if kind == 2 {
            s.reset();
            a = EMPTY;
        } else {
            let c = if kind == 0 { c1 } else { c2 };
            let out = s.feed(&cc(c, d1, d2));
            let e = spec_cc(&mut a, c, d1, d2);
            check!(same(&out, e), "C11 literal history: output equals the observer's");
            if out.is_some() {
                reported += 1;
            }
        }
        k += 1;
    }
    witness!(nd, reported >= 1, "a report within 4 events");
}

/// C15 literal: interleaved two-channel stream vs. own scanners.
pub fn interleave<N: Nd>(nd: &mut N, c1: u8, c2: u8) {
    let mut both = Scanner::new();
    let mut own1 = Scanner::new();
    let mut own2 = Scanner::new();
    let mut k = 0;
    let mut reported = 0;
    while k < 4 {
        let first = nd.bool();
        let which = nd.u8_le(7);
        let d1 = match which {
            0 => 98,
            1 => 99,
            2 => 100,
            3 => 101,
            4 => 38,
            5 => 6,
            6 => 96,
            _ => 97,
        };
        let d2 = nd.u8_le(127);
        let c = if first { c1 } else { c2 };
        let m = cc(c, d1, d2);
        let o_both = both.feed(&m);
        let o_own = if first { own1.feed(&m) } else { own2.feed(&m) };
        check!(o_both == o_own, "C15 interleaved stream reports what the channel's own scanner reports");
        if let Some(x) = o_both {
            check!(x.channel().get() == c, "C15 reported channel is the input's channel");
            reported += 1;
        }
        k += 1;
    }
    witness!(nd, reported >= 1, "a report");
}

/// Witness twin: claims data entry never reports 14-bit.
pub fn twin<N: Nd>(nd: &mut N) {
    let a = any_obs(nd, 1);
    let mut s = gen(&a);
    let d2 = nd.u8_le(127);
    let out = s.feed(&cc(0, 6, d2));
    check!(out.map_or(true, |m| !m.is_14_bit()), "twin: deliberately false");
}
