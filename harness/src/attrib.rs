//! Native attribution of a conformance failure to a property (not compiled under Kani).
//!
//! The inductive step harnesses compare the real scanner with the observer ("output equals the
//! observer's", "post-state is the state of the advanced observer"). Such a *conformance*
//! assertion carries the tags of every property whose induction rests on it, but its failure
//! alone does not say which property's statement is broken (a stale time stamp breaks C12/C13
//! but not C14; a bug inside one channel does not break C15). So when the solver finds a
//! conformance failure, the replayer captures the concrete pre-state, observer and event of the
//! counterexample and this module searches - natively, bounded breadth-first over concrete
//! continuations from the divergent state - for a continuation on which the clauses of the
//! property being checked are violated by the real outputs. Only then is the violation reported
//! for that property, with the whole concrete trace.
#![cfg(not(kani))]
use crate::cc14;
use crate::dom::*;
use crate::oracle as o;
use crate::pnm;
use helgoboss_midi::*;

#[cfg(feature = "cfg_std")]
use crate::poll;

#[derive(Clone)]
pub enum Ctx {
    Cc14 {
        s: ControlChange14BitMessageScanner,
        a: cc14::Obs,
        ch: u8,
        d1: u8,
        d2: u8,
    },
    Nrpn {
        s: ParameterNumberMessageScanner,
        a: pnm::Obs,
        ch: u8,
        d1: u8,
        d2: u8,
    },
    #[cfg(feature = "cfg_std")]
    Poll {
        s: PollingParameterNumberMessageScanner,
        a: poll::Obs,
        timeout: poll::T,
        ch: u8,
        /// the events of the counterexample in order: (channel, Some((d1, d2)) = feed of a Control
        /// Change / None = poll, time) - the inductive step first, then the solver's look-ahead
        events: Vec<(u8, Option<(u8, u8)>, poll::T)>,
    },
}

pub struct Found {
    pub clause: String,
    pub trace: Vec<String>,
}

fn quiet<R>(f: impl FnOnce() -> R + std::panic::UnwindSafe) -> Result<R, String> {
    match std::panic::catch_unwind(f) {
        Ok(r) => Ok(r),
        Err(e) => {
            if let Some(s) = e.downcast_ref::<String>() {
                Err(s.clone())
            } else if let Some(s) = e.downcast_ref::<&str>() {
                Err(s.to_string())
            } else {
                Err("panic".to_string())
            }
        }
    }
}

const VALS: [u8; 4] = [0, 1, 64, 127];

pub fn attribute(prop: &str, ctx: &Ctx, max_depth: usize) -> Option<Found> {
    match ctx {
        Ctx::Cc14 { s, a, ch, d1, d2 } => cc14_search(prop, *s, *a, *ch, *d1, *d2, max_depth),
        Ctx::Nrpn { s, a, ch, d1, d2 } => nrpn_search(prop, *s, *a, *ch, *d1, *d2, max_depth),
        #[cfg(feature = "cfg_std")]
        Ctx::Poll {
            s,
            a,
            timeout,
            ch,
            events,
        } => poll_search(prop, *s, *a, *timeout, *ch, events, max_depth),
    }
}

// ---------------------------------------------------------------------------------------------
// CC14
// ---------------------------------------------------------------------------------------------

#[derive(Copy, Clone)]
struct CcEv {
    c: u8,
    d1: u8,
    d2: u8,
}

fn cc14_oracle(
    prop: &str,
    main: &mut ControlChange14BitMessageScanner,
    shadow: &mut ControlChange14BitMessageScanner,
    a: &mut cc14::Obs,
    step_ch: u8,
    ev: CcEv,
) -> Result<bool, String> {
    let before = *main;
    let out = main.feed(&pnm::cc(ev.c, ev.d1, ev.d2));
    let e = cc14::spec_cc(a, ev.c, ev.d1, ev.d2);
    let got = out.map(|m| (m.channel().get(), m.msb_controller_number().get(), m.value().get()));
    let diverged = got != e;
    match prop {
        "C08" => {
            if got != e {
                return Err(format!("C08 reported {:?} but the justified report is {:?}", got, e));
            }
        }
        "C15" => {
            if let Some(m) = &out {
                if m.channel().get() != ev.c {
                    return Err("C15 reported message does not carry the channel of the input".into());
                }
            }
            if ev.c != step_ch {
                // the shadow scanner never saw the events on the step channel
                let so = shadow.feed(&pnm::cc(ev.c, ev.d1, ev.d2));
                if so != out {
                    return Err(format!("C15 channel {} reports {:?} but {:?} without the traffic on channel {}", ev.c, out, so, step_ch));
                }
            }
        }
        "C16" => {
            if ev.d1 >= 64 && (out.is_some() || *main != before) {
                return Err("C16 a Control Change outside 0-63 reported something or changed the state".into());
            }
        }
        // C07's own statement, evaluated on the real scanner in the (reachable) state after this
        // event: the encoding of a 14-bit message yields nothing, then exactly the message
        "C07" => {
            for n in 0..32u8 {
                for v in [0u16, 1, 127, 128, 8192, 16383] {
                    let msg = ControlChange14BitMessage::new(chv(ev.c), cnv(n), u14v(v));
                    let enc: [RawShortMessage; 2] = msg.to_short_messages();
                    let mut t = *main;
                    let r0 = t.feed(&enc[0]);
                    let r1 = t.feed(&enc[1]);
                    if r0.is_some() || r1 != Some(msg) {
                        return Err(format!("C07 after this history the encoding of {:?} is scanned as {:?}, {:?}", msg, r0, r1));
                    }
                }
            }
        }
        "C17" => {
            let mut t = *main;
            t.reset();
            if t != ControlChange14BitMessageScanner::new() {
                return Err("C17 after this history reset() does not give a scanner equal to a new one".into());
            }
        }
        _ => {}
    }
    Ok(diverged)
}

fn cc14_search(
    prop: &str,
    s: ControlChange14BitMessageScanner,
    a: cc14::Obs,
    ch: u8,
    d1: u8,
    d2: u8,
    max_depth: usize,
) -> Option<Found> {
    if !matches!(prop, "C07" | "C08" | "C15" | "C16" | "C17") {
        return None;
    }
    let other = (ch + 1) % 16;
    let mut alphabet = Vec::new();
    for c in [ch, other] {
        for n in 0..128u8 {
            for v in [0u8, 127] {
                alphabet.push(CcEv { c, d1: n, d2: v });
            }
        }
    }
    let first = CcEv { c: ch, d1, d2 };
    // breadth-first by depth
    for depth in 0..=max_depth {
        let mut found = None;
        cc14_dfs(prop, s, s, a, ch, first, &alphabet, depth, &mut vec![], &mut found);
        if found.is_some() {
            return found;
        }
    }
    None
}

#[allow(clippy::too_many_arguments)]
fn cc14_dfs(
    prop: &str,
    main: ControlChange14BitMessageScanner,
    shadow: ControlChange14BitMessageScanner,
    a: cc14::Obs,
    ch: u8,
    ev: CcEv,
    alphabet: &[CcEv],
    depth_left: usize,
    trace: &mut Vec<String>,
    found: &mut Option<Found>,
) {
    if found.is_some() {
        return;
    }
    let (mut m, mut sh, mut ao) = (main, shadow, a);
    trace.push(format!("feed CC ch{} #{}={}", ev.c, ev.d1, ev.d2));
    let r = quiet(std::panic::AssertUnwindSafe(|| cc14_oracle(prop, &mut m, &mut sh, &mut ao, ch, ev)));
    match r {
        // after the first observable deviation the observer no longer describes the real history:
        // clauses are only evaluated up to and including that step
        Ok(Ok(true)) => {}
        Ok(Ok(false)) => {
            if depth_left > 0 {
                for next in alphabet {
                    cc14_dfs(prop, m, sh, ao, ch, *next, alphabet, depth_left - 1, trace, found);
                    if found.is_some() {
                        break;
                    }
                }
            }
        }
        Ok(Err(msg)) | Err(msg) => {
            *found = Some(Found {
                clause: msg,
                trace: trace.clone(),
            });
        }
    }
    trace.pop();
}

// ---------------------------------------------------------------------------------------------
// (N)RPN
// ---------------------------------------------------------------------------------------------

fn nrpn_oracle(
    prop: &str,
    main: &mut ParameterNumberMessageScanner,
    shadow: &mut ParameterNumberMessageScanner,
    a: &mut pnm::Obs,
    step_ch: u8,
    ev: CcEv,
) -> Result<bool, String> {
    let before = *main;
    let out = main.feed(&pnm::cc(ev.c, ev.d1, ev.d2));
    let e = pnm::expect_msg(pnm::spec_cc(a, ev.c, ev.d1, ev.d2));
    let diverged = out != e;
    match prop {
        "C11" => {
            if out != e {
                return Err(format!("C11 reported {:?} but the justified report is {:?}", out, e));
            }
        }
        "C15" => {
            if let Some(m) = &out {
                if m.channel().get() != ev.c {
                    return Err("C15 reported message does not carry the channel of the input".into());
                }
            }
            if ev.c != step_ch {
                let so = shadow.feed(&pnm::cc(ev.c, ev.d1, ev.d2));
                if so != out {
                    return Err(format!("C15 channel {} reports {:?} but {:?} without the traffic on channel {}", ev.c, out, so, step_ch));
                }
            }
        }
        "C16" => {
            if !o::is_pn_controller(ev.d1) && (out.is_some() || *main != before) {
                return Err("C16 a non-contributing Control Change reported something or changed the state".into());
            }
        }
        // C10's own statement, evaluated on the real scanner in the (reachable) state after this
        // event: the documented encodings yield nothing until the last message, then the original
        "C10" => {
            for (n, v, reg, kind) in [
                (0u16, 0u16, false, 0u8),
                (16383, 127, true, 0),
                (420, 15000, true, 1),
                (16383, 16383, false, 1),
                (421, 1, false, 2),
                (5, 127, true, 3),
            ] {
                let msg = pnm::build(ev.c, n, v, reg, kind);
                let order = if kind == 1 { DataEntryByteOrder::LsbFirst } else { DataEntryByteOrder::MsbFirst };
                let enc: [Option<RawShortMessage>; 4] = msg.to_short_messages(order);
                let cnt = enc.iter().flatten().count();
                let mut t = *main;
                for (i, e) in enc.iter().flatten().enumerate() {
                    let r = t.feed(e);
                    if i + 1 < cnt && r.is_some() {
                        return Err(format!("C10 after this history message {} of the encoding of {:?} already reports {:?}", i, msg, r));
                    }
                    if i + 1 == cnt && r != Some(msg) {
                        return Err(format!("C10 after this history the encoding of {:?} is scanned as {:?}", msg, r));
                    }
                }
            }
        }
        "C17" => {
            let mut t = *main;
            t.reset();
            if t != ParameterNumberMessageScanner::new() {
                return Err("C17 after this history reset() does not give a scanner equal to a new one".into());
            }
        }
        _ => {}
    }
    Ok(diverged)
}

fn nrpn_search(
    prop: &str,
    s: ParameterNumberMessageScanner,
    a: pnm::Obs,
    ch: u8,
    d1: u8,
    d2: u8,
    max_depth: usize,
) -> Option<Found> {
    if !matches!(prop, "C10" | "C11" | "C15" | "C16" | "C17") {
        return None;
    }
    let other = (ch + 1) % 16;
    let mut alphabet = Vec::new();
    for c in [ch, other] {
        for n in [98u8, 99, 100, 101, 38, 6, 96, 97, 7] {
            for v in VALS {
                alphabet.push(CcEv { c, d1: n, d2: v });
            }
        }
    }
    // also the values already stored on the channel (a re-sent identical byte is a classic)
    let x = a.ch[ch as usize];
    for (n, v) in [(99u8, x.msb), (101, x.msb), (98, x.lsb), (100, x.lsb), (38, x.v38)] {
        if let Some(v) = v {
            alphabet.push(CcEv { c: ch, d1: n, d2: v });
        }
    }
    let first = CcEv { c: ch, d1, d2 };
    for depth in 0..=max_depth {
        let mut found = None;
        nrpn_dfs(prop, s, s, a, ch, first, &alphabet, depth, &mut vec![], &mut found);
        if found.is_some() {
            return found;
        }
    }
    None
}

#[allow(clippy::too_many_arguments)]
fn nrpn_dfs(
    prop: &str,
    main: ParameterNumberMessageScanner,
    shadow: ParameterNumberMessageScanner,
    a: pnm::Obs,
    ch: u8,
    ev: CcEv,
    alphabet: &[CcEv],
    depth_left: usize,
    trace: &mut Vec<String>,
    found: &mut Option<Found>,
) {
    if found.is_some() {
        return;
    }
    let (mut m, mut sh, mut ao) = (main, shadow, a);
    trace.push(format!("feed CC ch{} #{}={}", ev.c, ev.d1, ev.d2));
    let r = quiet(std::panic::AssertUnwindSafe(|| nrpn_oracle(prop, &mut m, &mut sh, &mut ao, ch, ev)));
    match r {
        Ok(Ok(true)) => {}
        Ok(Ok(false)) => {
            if depth_left > 0 {
                for next in alphabet {
                    nrpn_dfs(prop, m, sh, ao, ch, *next, alphabet, depth_left - 1, trace, found);
                    if found.is_some() {
                        break;
                    }
                }
            }
        }
        Ok(Err(msg)) | Err(msg) => {
            *found = Some(Found {
                clause: msg,
                trace: trace.clone(),
            });
        }
    }
    trace.pop();
}

// ---------------------------------------------------------------------------------------------
// Polling
// ---------------------------------------------------------------------------------------------

#[cfg(feature = "cfg_std")]
#[derive(Copy, Clone)]
enum PEv {
    Feed { c: u8, d1: u8, d2: u8, t: poll::T },
    Poll { c: u8, t: poll::T },
}

#[cfg(feature = "cfg_std")]
fn t_add(a: poll::T, b: poll::T) -> Option<poll::T> {
    let mut n = a.n as u64 + b.n as u64;
    let mut carry = 0u64;
    if n >= 1_000_000_000 {
        n -= 1_000_000_000;
        carry = 1;
    }
    let s = a.s.checked_add(b.s)?.checked_add(carry)?;
    Some(poll::T { s, n: n as u32 })
}

#[cfg(feature = "cfg_std")]
fn t_pred(a: poll::T) -> Option<poll::T> {
    if a.n > 0 {
        Some(poll::T { s: a.s, n: a.n - 1 })
    } else if a.s > 0 {
        Some(poll::T {
            s: a.s - 1,
            n: 999_999_999,
        })
    } else {
        None
    }
}

#[cfg(feature = "cfg_std")]
fn poll_oracle(
    prop: &str,
    main: &mut PollingParameterNumberMessageScanner,
    shadow: &mut PollingParameterNumberMessageScanner,
    a: &mut poll::Obs,
    timeout: poll::T,
    step_ch: u8,
    ev: PEv,
) -> Result<bool, String> {
    use helgoboss_midi::verif_hooks::set_now;
    let before = *main;
    let diverged;
    match ev {
        PEv::Feed { c, d1, d2, t } => {
            set_now(t.dur());
            let out = main.feed(&pnm::cc(c, d1, d2));
            let pre = a.ch[c as usize];
            let e = poll::spec_feed(&mut a.ch[c as usize], d1, d2, t);
            diverged = !(poll::same(&out[0], c, e[0]) && poll::same(&out[1], c, e[1]));
            match prop {
                "C12" => {
                    if !poll::open_corner(&pre, d1) && !(poll::same(&out[0], c, e[0]) && poll::same(&out[1], c, e[1])) {
                        return Err(format!("C12 feed reported {:?} but the intended messages are {:?}", out, e));
                    }
                }
                "C13" => {
                    // the mere passage of time never changes what feed returns
                    let mut alt = before;
                    if let Some(t2) = t_add(t, timeout).and_then(|x| t_add(x, poll::T { s: 1, n: 0 })) {
                        set_now(t2.dur());
                        let out2 = alt.feed(&pnm::cc(c, d1, d2));
                        if out2 != out {
                            return Err("C13 the passage of time changed what feed returns".into());
                        }
                    }
                }
                "C14" => {
                    poll::c14_clauses(&pre, c, Some(d1), d2, &out, false);
                }
                "C15" => {
                    for m in out.iter().flatten() {
                        if m.channel().get() != c {
                            return Err("C15 reported message does not carry the channel of the input".into());
                        }
                    }
                    if c != step_ch {
                        set_now(t.dur());
                        let so = shadow.feed(&pnm::cc(c, d1, d2));
                        if so != out {
                            return Err(format!("C15 channel {} reports {:?} but {:?} without the traffic on channel {}", c, out, so, step_ch));
                        }
                    }
                }
                "C16" => {
                    if !o::is_pn_controller(d1) && (out[0].is_some() || out[1].is_some() || *main != before) {
                        return Err("C16 a non-contributing Control Change reported something or changed the state".into());
                    }
                }
                _ => {}
            }
        }
        PEv::Poll { c, t } => {
            set_now(t.dur());
            let out = main.poll(chv(c));
            let pre = a.ch[c as usize];
            let pend = match (poll::number_of(&pre.num), pre.val) {
                (Some(_), poll::Val::Pending { is_msb, t: t0, .. }) => Some((is_msb, t0)),
                _ => None,
            };
            let exp = pend.map_or(false, |(_, t0)| poll::expired(t, t0, timeout));
            let e = poll::spec_poll(&mut a.ch[c as usize], t, timeout);
            diverged = !poll::same(&out, c, e);
            match prop {
                "C12" => {
                    if !matches!(pend, Some((false, _))) && !poll::same(&out, c, e) {
                        return Err(format!("C12 poll reported {:?} but the intended message is {:?}", out, e));
                    }
                }
                "C13" => {
                    if out.is_some() && !(pend.map_or(false, |(m, _)| m) && exp) {
                        return Err("C13 poll returned a message although no data entry MSB is pending for at least the timeout".into());
                    }
                    if !exp && (out.is_some() || *main != before) {
                        return Err("C13 a poll before the timeout returned something or had an effect".into());
                    }
                    if !poll::same(&out, c, e) {
                        return Err(format!("C13 poll returned {:?} but must return {:?}", out, e));
                    }
                }
                "C14" => {
                    poll::c14_clauses(&pre, c, None, 0, &[out, None], exp);
                }
                "C15" => {
                    if let Some(m) = &out {
                        if m.channel().get() != c {
                            return Err("C15 reported message does not carry the polled channel".into());
                        }
                    }
                    if c != step_ch {
                        set_now(t.dur());
                        let so = shadow.poll(chv(c));
                        if so != out {
                            return Err(format!("C15 poll({}) reports {:?} but {:?} without the traffic on channel {}", c, out, so, step_ch));
                        }
                    }
                }
                _ => {}
            }
        }
    }
    Ok(diverged)
}

#[cfg(feature = "cfg_std")]
fn poll_search(
    prop: &str,
    s: PollingParameterNumberMessageScanner,
    a: poll::Obs,
    timeout: poll::T,
    ch: u8,
    events: &[(u8, Option<(u8, u8)>, poll::T)],
    max_depth: usize,
) -> Option<Found> {
    if !matches!(prop, "C12" | "C13" | "C14" | "C15" | "C16") || events.is_empty() {
        return None;
    }
    // another channel that is interesting if there is one: prefer a non-initial one
    let mut other = ch ^ 1;
    for c in 0..16u8 {
        if c != ch && a.ch[c as usize].num != poll::Num::None {
            other = c;
            if matches!(a.ch[c as usize].val, poll::Val::Pending { .. }) {
                break;
            }
        }
    }
    let prefix: Vec<PEv> = events
        .iter()
        .map(|(c, f, t)| match f {
            Some((d1, d2)) => PEv::Feed {
                c: *c,
                d1: *d1,
                d2: *d2,
                t: *t,
            },
            None => PEv::Poll { c: *c, t: *t },
        })
        .collect();
    for depth in 0..=max_depth {
        let mut found = None;
        poll_dfs(prop, s, s, a, timeout, ch, other, &prefix, depth, &mut vec![], &mut found);
        if found.is_some() {
            return found;
        }
    }
    None
}

#[cfg(feature = "cfg_std")]
fn poll_alphabet(a: &poll::Obs, timeout: poll::T, now: poll::T, ch: u8, other: u8) -> Vec<PEv> {
    // candidate instants: now, and around every deadline that lies ahead
    let mut times = vec![now];
    let mut push = |t: Option<poll::T>| {
        if let Some(t) = t {
            if now.le(t) && !times.contains(&t) {
                times.push(t);
            }
        }
    };
    push(t_add(now, poll::T { s: 0, n: 1 }));
    push(t_add(now, timeout));
    push(t_add(now, timeout).and_then(t_pred));
    for c in [ch, other] {
        if let poll::Val::Pending { t, .. } = a.ch[c as usize].val {
            push(t_add(t, timeout));
            push(t_add(t, timeout).and_then(t_pred));
        }
    }
    let mut vals: Vec<u8> = VALS.to_vec();
    for c in [ch, other] {
        match a.ch[c as usize].val {
            poll::Val::Pending { byte, .. } => vals.push(byte),
            poll::Val::Done14 { msb, lsb } => {
                vals.push(msb);
                vals.push(lsb);
            }
            _ => {}
        }
    }
    vals.sort();
    vals.dedup();
    let mut ev = Vec::new();
    for c in [ch, other] {
        for &t in &times {
            ev.push(PEv::Poll { c, t });
        }
        for n in [6u8, 38, 96, 97, 98, 99, 100, 101, 7] {
            for &v in &vals {
                for &t in times.iter().take(3) {
                    ev.push(PEv::Feed { c, d1: n, d2: v, t });
                }
            }
        }
    }
    ev
}

#[cfg(feature = "cfg_std")]
#[allow(clippy::too_many_arguments)]
fn poll_dfs(
    prop: &str,
    main: PollingParameterNumberMessageScanner,
    shadow: PollingParameterNumberMessageScanner,
    a: poll::Obs,
    timeout: poll::T,
    ch: u8,
    other: u8,
    fixed: &[PEv],
    depth_left: usize,
    trace: &mut Vec<String>,
    found: &mut Option<Found>,
) {
    if found.is_some() {
        return;
    }
    // the events of the counterexample come first, then the free continuation
    let ev = fixed[0];
    let rest = &fixed[1..];
    let (mut m, mut sh, mut ao) = (main, shadow, a);
    let now = match ev {
        PEv::Feed { c, d1, d2, t } => {
            trace.push(format!("t={}s+{}ns feed CC ch{} #{}={}", t.s, t.n, c, d1, d2));
            t
        }
        PEv::Poll { c, t } => {
            trace.push(format!("t={}s+{}ns poll(ch{})", t.s, t.n, c));
            t
        }
    };
    let r = quiet(std::panic::AssertUnwindSafe(|| poll_oracle(prop, &mut m, &mut sh, &mut ao, timeout, ch, ev)));
    match r {
        Ok(Ok(true)) => {}
        Ok(Ok(false)) => {
            if !rest.is_empty() {
                poll_dfs(prop, m, sh, ao, timeout, ch, other, rest, depth_left, trace, found);
            } else if depth_left > 0 {
                for next in poll_alphabet(&ao, timeout, now, ch, other) {
                    poll_dfs(prop, m, sh, ao, timeout, ch, other, &[next], depth_left - 1, trace, found);
                    if found.is_some() {
                        break;
                    }
                }
            }
        }
        Ok(Err(msg)) | Err(msg) => {
            *found = Some(Found {
                clause: msg,
                trace: trace.clone(),
            });
        }
    }
    trace.pop();
}
