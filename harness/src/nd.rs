//! Source of nondeterminism shared by the Kani proofs and the native replayer.
//!
//! Under Kani every call is one `kani::any()` (a fresh symbolic variable) and `assume` is
//! `kani::assume`. In the native replayer the values come, in call order, from the byte vectors
//! that `--concrete-playback=print` reported for a counterexample; a violated assumption aborts
//! the replay with a distinguished panic payload (the counterexample does not apply).

pub trait Nd {
    fn u8(&mut self) -> u8;
    fn u16(&mut self) -> u16;
    fn u32(&mut self) -> u32;
    fn u64(&mut self) -> u64;
    fn u128(&mut self) -> u128;
    fn usize(&mut self) -> usize;
    fn bool(&mut self) -> bool;
    fn assume(&mut self, c: bool);
    /// Records that a witness point was reached (native only; Kani uses `kani::cover!`).
    fn witness(&mut self, _name: &'static str) {}
    /// Native only: remembers the concrete pre-state, observer and event of an inductive step so
    /// that a conformance failure can be attributed to a property (see attrib.rs).
    #[cfg(not(kani))]
    fn capture(&mut self, _ctx: crate::attrib::Ctx) {}

    fn i8(&mut self) -> i8 {
        self.u8() as i8
    }
    fn i16(&mut self) -> i16 {
        self.u16() as i16
    }
    fn i32(&mut self) -> i32 {
        self.u32() as i32
    }
    fn i64(&mut self) -> i64 {
        self.u64() as i64
    }
    fn i128(&mut self) -> i128 {
        self.u128() as i128
    }
    fn isize(&mut self) -> isize {
        self.usize() as isize
    }
    /// A value in `0..=max`.
    fn u8_le(&mut self, max: u8) -> u8 {
        let v = self.u8();
        self.assume(v <= max);
        v
    }
    /// A value in `0..=max`.
    fn u16_le(&mut self, max: u16) -> u16 {
        let v = self.u16();
        self.assume(v <= max);
        v
    }
}

#[cfg(kani)]
pub struct KaniNd;

#[cfg(kani)]
impl Nd for KaniNd {
    #[inline(always)]
    fn u8(&mut self) -> u8 {
        kani::any()
    }
    #[inline(always)]
    fn u16(&mut self) -> u16 {
        kani::any()
    }
    #[inline(always)]
    fn u32(&mut self) -> u32 {
        kani::any()
    }
    #[inline(always)]
    fn u64(&mut self) -> u64 {
        kani::any()
    }
    #[inline(always)]
    fn u128(&mut self) -> u128 {
        kani::any()
    }
    #[inline(always)]
    fn usize(&mut self) -> usize {
        kani::any()
    }
    #[inline(always)]
    fn bool(&mut self) -> bool {
        kani::any()
    }
    #[inline(always)]
    fn assume(&mut self, c: bool) {
        kani::assume(c)
    }
}

/// Panic payload of a replay whose values do not satisfy a harness assumption.
pub struct AssumeFailed;

/// Panic payload of a replay that ran out of recorded values.
pub struct OutOfValues;

pub struct ReplayNd {
    pub values: Vec<Vec<u8>>,
    pub pos: usize,
    pub witnesses: Vec<&'static str>,
    #[cfg(not(kani))]
    pub ctx: Option<crate::attrib::Ctx>,
}

impl ReplayNd {
    pub fn new(values: Vec<Vec<u8>>) -> Self {
        ReplayNd {
            values,
            pos: 0,
            witnesses: Vec::new(),
            #[cfg(not(kani))]
            ctx: None,
        }
    }
    fn next(&mut self, n: usize) -> u128 {
        if self.pos >= self.values.len() {
            std::panic::panic_any(OutOfValues);
        }
        let v = &self.values[self.pos];
        self.pos += 1;
        if v.len() != n {
            std::panic::panic_any(OutOfValues);
        }
        let mut r: u128 = 0;
        for (i, b) in v.iter().enumerate() {
            r |= (*b as u128) << (8 * i);
        }
        r
    }
}

impl Nd for ReplayNd {
    fn u8(&mut self) -> u8 {
        self.next(1) as u8
    }
    fn u16(&mut self) -> u16 {
        self.next(2) as u16
    }
    fn u32(&mut self) -> u32 {
        self.next(4) as u32
    }
    fn u64(&mut self) -> u64 {
        self.next(8) as u64
    }
    fn u128(&mut self) -> u128 {
        self.next(16)
    }
    fn usize(&mut self) -> usize {
        self.next(core::mem::size_of::<usize>()) as usize
    }
    fn bool(&mut self) -> bool {
        self.next(1) != 0
    }
    fn assume(&mut self, c: bool) {
        if !c {
            std::panic::panic_any(AssumeFailed);
        }
    }
    fn witness(&mut self, name: &'static str) {
        self.witnesses.push(name);
    }
    #[cfg(not(kani))]
    fn capture(&mut self, ctx: crate::attrib::Ctx) {
        self.ctx = Some(ctx);
    }
}

/// Vacuity / reachability witness: under Kani a `kani::cover!` that the driver requires to be
/// SATISFIED; natively a recorded mark.
#[macro_export]
macro_rules! witness {
    ($nd:expr, $cond:expr, $name:literal) => {{
        #[cfg(kani)]
        {
            let _ = &$nd;
            kani::cover!($cond, $name);
        }
        #[cfg(not(kani))]
        {
            if $cond {
                $crate::nd::Nd::witness($nd, $name);
            }
        }
    }};
}

/// Marks the point after a call that is required to panic. Under Kani the driver requires the
/// cover `RETURNED` to be unsatisfiable; natively reaching it records the mark.
#[macro_export]
macro_rules! returned {
    ($nd:expr) => {{
        #[cfg(kani)]
        {
            let _ = &$nd;
            kani::cover!(true, "RETURNED");
        }
        #[cfg(not(kani))]
        {
            $crate::nd::Nd::witness($nd, "RETURNED");
        }
    }};
}

/// Does an assertion message carry the focus property's tag? Messages start with the ids of the
/// properties they express ("C12 C14 ..."); untagged messages are always active.
pub const fn focus_on(msg: &str, focus: Option<&str>) -> bool {
    let f = match focus {
        None => return true,
        Some(f) => f.as_bytes(),
    };
    if f.len() == 0 {
        return true;
    }
    let m = msg.as_bytes();
    let mut i = 0;
    let mut any_tag = false;
    loop {
        // a tag is 'C' followed by digits, terminated by a space
        if i >= m.len() || m[i] != b'C' {
            break;
        }
        let mut j = i + 1;
        while j < m.len() && m[j] >= b'0' && m[j] <= b'9' {
            j += 1;
        }
        if j == i + 1 || j >= m.len() || m[j] != b' ' {
            break;
        }
        any_tag = true;
        // compare m[i..j] with f
        if j - i == f.len() {
            let mut k = 0;
            let mut eq = true;
            while k < f.len() {
                if m[i + k] != f[k] {
                    eq = false;
                }
                k += 1;
            }
            if eq {
                return true;
            }
        }
        i = j + 1;
    }
    !any_tag
}

#[cfg(not(kani))]
pub fn focus_on_rt(msg: &str) -> bool {
    match std::env::var("VERIF_FOCUS") {
        Ok(f) => focus_on(msg, Some(&f)),
        Err(_) => true,
    }
}

/// Tagged assertion. Normally a plain `assert!`. When the crate is compiled with the environment
/// variable VERIF_FOCUS=<property id>, assertions tagged only for other properties are skipped
/// (neither asserted nor assumed), so that an earlier failing assertion of another property cannot
/// mask this property's own assertions (Kani assumes an assertion after checking it).
#[macro_export]
macro_rules! check {
    ($cond:expr, $msg:literal $(,)?) => {{
        #[cfg(kani)]
        {
            const ON: bool = $crate::nd::focus_on($msg, option_env!("VERIF_FOCUS"));
            if ON {
                assert!($cond, $msg);
            }
        }
        #[cfg(not(kani))]
        {
            if $crate::nd::focus_on_rt($msg) {
                assert!($cond, "{}", $msg);
            }
        }
    }};
}
