//! 14-bit Control Change: message (C07), scanner observer and inductive step (C08), and the
//! isolation / transparency / reset clauses read off the same step (C15, C16, C17).
use crate::dom::*;
use crate::check;
use crate::nd::Nd;
use crate::oracle as o;
use crate::{returned, witness};
use helgoboss_midi::*;

type Scanner = ControlChange14BitMessageScanner;

// ---------------------------------------------------------------------------------------------
// C07: the message itself
// ---------------------------------------------------------------------------------------------

fn b3<M: ShortMessage>(m: &M) -> (u8, u8, u8) {
    (m.status_byte(), m.data_byte_1().get(), m.data_byte_2().get())
}

/// All 16 x 32 x 16384 messages: getters and both encodings.
pub fn message_ok<N: Nd>(nd: &mut N) {
    let c = nd.u8_le(15);
    let n = nd.u8_le(31);
    let v = nd.u16_le(16383);
    let m = ControlChange14BitMessage::new(chv(c), cnv(n), u14v(v));
    check!(m.channel().get() == c, "C07 channel reported back");
    check!(m.msb_controller_number().get() == n, "C07 MSB controller number reported back");
    check!(m.lsb_controller_number().get() == n + 32, "C07 LSB controller number = MSB + 32");
    check!(m.value().get() == v, "C07 value reported back");
    check!(m.value().get() <= 16383 && m.lsb_controller_number().get() <= 127, "C04 CC14 getters in range");
    let e0 = (0xB0 | c, n, o::hi7(v));
    let e1 = (0xB0 | c, n + 32, o::lo7(v));
    let raw: [RawShortMessage; 2] = m.to_short_messages();
    check!(b3(&raw[0]) == e0, "C07 first message: controller n with the high 7 bits");
    check!(b3(&raw[1]) == e1, "C07 second message: controller n+32 with the low 7 bits");
    let st: [StructuredShortMessage; 2] = m.to_short_messages();
    check!(st[0] == expected_structured(e0) && st[1] == expected_structured(e1), "C07 structured encoding");
    let raw2: [RawShortMessage; 2] = m.into();
    check!(raw2[0] == raw[0] && raw2[1] == raw[1], "C07 array conversion equals to_short_messages (raw)");
    let st2: [StructuredShortMessage; 2] = m.into();
    check!(st2[0] == st[0] && st2[1] == st[1], "C07 array conversion equals to_short_messages (structured)");
    witness!(nd, v == 16383 && n == 31 && c == 15, "maximal message");
}

/// MSB controller numbers 32..=127 must be refused.
pub fn message_must_panic<N: Nd>(nd: &mut N) {
    let c = nd.u8_le(15);
    let n = nd.u8_le(127);
    nd.assume(n >= 32);
    let v = nd.u16_le(16383);
    let _ = ControlChange14BitMessage::new(chv(c), cnv(n), u14v(v));
    returned!(nd);
}

// ---------------------------------------------------------------------------------------------
// Observer (from the statement of C08): per channel, the most recent Control Change with a
// controller number below 32 since creation or reset.
// ---------------------------------------------------------------------------------------------

#[derive(Copy, Clone, PartialEq, Eq, Debug)]
pub struct Obs {
    pub last: [Option<(u8, u8)>; 16],
}

pub const EMPTY: Obs = Obs { last: [None; 16] };

/// Family of abstract states: channels in `mask` arbitrary, the others initial.
pub fn any_obs<N: Nd>(nd: &mut N, mask: u16) -> Obs {
    let mut a = EMPTY;
    let mut c = 0;
    while c < 16 {
        if mask & (1 << c) != 0 {
            let has = nd.bool();
            let n = nd.u8_le(31);
            let v = nd.u8_le(127);
            if has {
                a.last[c] = Some((n, v));
            }
        }
        c += 1;
    }
    a
}

/// Concretisation through the public API: the shortest feed sequence from `new()`.
pub fn gen(a: &Obs) -> Scanner {
    let mut s = Scanner::new();
    let mut c = 0;
    while c < 16 {
        if let Some((n, v)) = a.last[c] {
            let r = s.feed(&RawShortMessage::control_change(chv(c as u8), cnv(n), u7v(v)));
            check!(r.is_none(), "C08 an MSB alone reports nothing");
        }
        c += 1;
    }
    s
}

/// What the statement of C08 prescribes for a Control Change (c, d1, d2); advances the observer.
pub fn spec_cc(a: &mut Obs, c: u8, d1: u8, d2: u8) -> Option<(u8, u8, u16)> {
    if d1 < 32 {
        a.last[c as usize] = Some((d1, d2));
        None
    } else if d1 < 64 {
        match a.last[c as usize] {
            Some((n, v)) if n == d1 - 32 => Some((c, n, o::join14(v, d2))),
            _ => None,
        }
    } else {
        None
    }
}

fn out3(r: Option<ControlChange14BitMessage>) -> Option<(u8, u8, u16)> {
    r.map(|m| (m.channel().get(), m.msb_controller_number().get(), m.value().get()))
}

fn check_out_range(r: &Option<ControlChange14BitMessage>) {
    if let Some(m) = r {
        check!(
            m.channel().get() <= 15 && m.msb_controller_number().get() <= 31 && m.value().get() <= 16383,
            "C04 scanner output in range"
        );
    }
}

/// Inductive step: any state of the family, a Control Change on channel `ch` with arbitrary
/// controller number and value.
pub fn step_cc<N: Nd>(nd: &mut N, mask: u16, ch: u8) {
    let mut a = any_obs(nd, mask);
    let mut s = gen(&a);
    let before = s;
    let d1 = nd.u8_le(127);
    let d2 = nd.u8_le(127);
    #[cfg(not(kani))]
    nd.capture(crate::attrib::Ctx::Cc14 { s, a, ch, d1, d2 });
    let out = s.feed(&RawShortMessage::control_change(chv(ch), cnv(d1), u7v(d2)));
    check_out_range(&out);
    let expect = spec_cc(&mut a, ch, d1, d2);
    if d1 >= 64 {
        check!(out.is_none(), "C16 C08 controller outside 0-63 reports nothing");
        check!(s == before, "C16 C08 controller outside 0-63 leaves the scanner in an equal state");
    }
    if let Some(m) = &out {
        check!(m.channel().get() == ch, "C15 C08 reported message carries the channel of the input");
    }
    check!(out3(out) == expect, "C08 C15 [conformance] output equals the observer's: exactly the justified message (channel, MSB controller, 128 x MSB value + LSB value)");
    check!(s == gen(&a), "C08 C15 C16 C07 C17 [conformance] post-state is the state of the advanced observer (only the addressed channel changes)");
    witness!(nd, out.is_some(), "reported");
    witness!(nd, d1 >= 32 && d1 < 64 && out.is_none(), "LSB without matching MSB");
    witness!(nd, d1 < 32, "MSB");
}

/// Step with any message that is not a Control Change (all other channel messages on all
/// channels, all system messages): nothing reported, state equal.
pub fn step_other<N: Nd>(nd: &mut N, mask: u16) {
    let a = any_obs(nd, mask);
    let mut s = gen(&a);
    let before = s;
    let t = any_valid_triple(nd);
    nd.assume(t.0 & 0xF0 != 0xB0);
    let out = s.feed(&raw_of(t));
    check!(out.is_none(), "C16 C15 C08 a message that is not a Control Change reports nothing");
    check!(s == before, "C16 C15 C08 a message that is not a Control Change leaves the scanner in an equal state");
    let out2 = s.feed(&raw_of(t).to_structured());
    check!(out2.is_none() && s == before, "C16 C15 C08 same for the structured representation");
    witness!(nd, t.0 >= 0xF0, "system message");
    witness!(nd, t.0 < 0xB0, "channel voice message");
}

/// reset() from any state of the family gives a scanner equal to a new one; new == default;
/// copies are independent.
pub fn reset_and_copy<N: Nd>(nd: &mut N, mask: u16) {
    let a = any_obs(nd, mask);
    let mut s = gen(&a);
    let copy = s;
    check!(gen(&EMPTY) == Scanner::new(), "C08 base case: the empty observer is the new scanner");
    check!(Scanner::new() == Scanner::default(), "C17 new() equals default()");
    // a copy evolves identically and independently
    let c = nd.u8_le(15);
    let d1 = nd.u8_le(63);
    let d2 = nd.u8_le(127);
    let m = RawShortMessage::control_change(chv(c), cnv(d1), u7v(d2));
    let mut s2 = copy;
    let o1 = s.feed(&m);
    check!(s2 == copy && copy == gen(&a), "C17 stepping the original leaves the copy untouched");
    let o2 = s2.feed(&m);
    check!(o1 == o2 && s == s2, "C17 a copy evolves identically");
    s.reset();
    check!(s == Scanner::new(), "C17 C08 after reset() the scanner equals a new one");
    check!(s2 != s || s2 == Scanner::new(), "C17 resetting the original does not reset the copy");
    witness!(nd, copy != Scanner::new(), "non-initial state");
}

/// C07 inversion: from every state of the family, feeding the two encoded messages yields
/// nothing, then exactly the original message (both encoding targets).
pub fn inversion<N: Nd>(nd: &mut N, mask: u16, ch: u8) {
    let a = any_obs(nd, mask);
    let mut s = gen(&a);
    let n = nd.u8_le(31);
    let v = nd.u16_le(16383);
    let msg = ControlChange14BitMessage::new(chv(ch), cnv(n), u14v(v));
    let mut s2 = s;
    let raw: [RawShortMessage; 2] = msg.to_short_messages();
    check!(s.feed(&raw[0]).is_none(), "C07 first encoded message yields nothing");
    check!(s.feed(&raw[1]) == Some(msg), "C07 second encoded message yields exactly the original");
    let st: [StructuredShortMessage; 2] = msg.to_short_messages();
    check!(s2.feed(&st[0]).is_none(), "C07 first encoded message yields nothing (structured)");
    check!(s2.feed(&st[1]) == Some(msg), "C07 second encoded message yields exactly the original (structured)");
    check!(s == s2, "C03 C07 both representations drive the scanner identically");
    witness!(nd, a.last[ch as usize].is_some(), "stale MSB present");
}

/// Literal bounded cross-check of the induction: from new(), `K` arbitrary events (Control
/// Changes with controller < 64 on two channels, or reset) - outputs equal the observer's.
pub fn literal<N: Nd>(nd: &mut N, c1: u8, c2: u8) {
    let mut s = Scanner::new();
    let mut a = EMPTY;
    let mut k = 0;
    let mut reported = 0;
    while k < 4 {
        let kind = nd.u8_le(2);
        let d1 = nd.u8_le(63);
        let d2 = nd.u8_le(127);
        if kind == 2 {
            s.reset();
            a = EMPTY;
        } else {
            let c = if kind == 0 { c1 } else { c2 };
            let out = s.feed(&RawShortMessage::control_change(chv(c), cnv(d1), u7v(d2)));
            let e = spec_cc(&mut a, c, d1, d2);
            check!(out3(out) == e, "C08 literal history: output equals the observer's");
            if out.is_some() {
                reported += 1;
            }
        }
        k += 1;
    }
    witness!(nd, reported >= 2, "two reports in one history");
}

/// C15 literal: two per-channel streams interleaved into one scanner report exactly what each
/// reports on a scanner of its own.
pub fn interleave<N: Nd>(nd: &mut N, c1: u8, c2: u8) {
    let mut both = Scanner::new();
    let mut own1 = Scanner::new();
    let mut own2 = Scanner::new();
    let mut k = 0;
    let mut reported = 0;
    while k < 4 {
        let first = nd.bool();
        let d1 = nd.u8_le(63);
        let d2 = nd.u8_le(127);
        let c = if first { c1 } else { c2 };
        let m = RawShortMessage::control_change(chv(c), cnv(d1), u7v(d2));
        let o_both = both.feed(&m);
        let o_own = if first { own1.feed(&m) } else { own2.feed(&m) };
        check!(o_both == o_own, "C15 interleaved stream reports what the channel's own scanner reports");
        if let Some(x) = o_both {
            check!(x.channel().get() == c, "C15 reported channel is the input's channel");
            reported += 1;
        }
        k += 1;
    }
    witness!(nd, reported >= 1, "a report");
}

/// ControllerNumber predicates (C16) over all 128 controller numbers.
pub fn predicates<N: Nd>(nd: &mut N) {
    let n = nd.u8_le(127);
    let cn = cnv(n);
    check!(cn.can_be_part_of_14_bit_control_change_message() == (n <= 63), "C16 can_be_part_of_14_bit_control_change_message holds exactly for 0-63");
    let l = cn.corresponding_14_bit_lsb_controller_number();
    check!(l.map(|x| x.get()) == if n <= 31 { Some(n + 32) } else { None }, "C16 corresponding_14_bit_lsb_controller_number is n+32 exactly for 0-31");
    check!(cn.is_parameter_number_message_controller_number() == o::is_pn_controller(n), "C16 is_parameter_number_message_controller_number holds exactly for {6,38,96..101}");
    check!(cn.is_channel_mode_message_controller_number() == (n >= 120), "C02 is_channel_mode_message_controller_number holds exactly for 120-127");
    witness!(nd, n == 63, "boundary 63");
}

/// Witness twin: claims an LSB never reports.
pub fn twin<N: Nd>(nd: &mut N) {
    let a = any_obs(nd, 1);
    let mut s = gen(&a);
    let d1 = nd.u8_le(63);
    let d2 = nd.u8_le(127);
    let out = s.feed(&RawShortMessage::control_change(chv(0), cnv(d1), u7v(d2)));
    check!(out.is_none(), "twin: deliberately false");
}
