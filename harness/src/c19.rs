//! C19 - deserialization enforces the same invariants as the constructors.
//!
//! A small self-describing token deserializer / serializer (in the style of serde's generic value
//! deserializers and serde_test) feeds the real `Deserialize` / `Serialize` impls of the crate.
//! Leaves are symbolic; errors carry no message (no formatting, no allocation).
use crate::check;
use crate::dom::*;
use crate::nd::Nd;
use crate::witness;
use core::fmt;
use helgoboss_midi::*;
use serde::de::{self, DeserializeSeed, EnumAccess, MapAccess, SeqAccess, VariantAccess, Visitor};
use serde::ser::{self, Serialize};
use serde::Deserialize;

#[derive(Copy, Clone, PartialEq, Eq, Debug)]
pub enum Tok {
    U(u64),
    Bool(bool),
    Str(&'static str),
    /// sequence / tuple / struct-as-seq with that many elements
    Seq(u8),
    /// map / struct-as-map with that many entries (key tokens are `Str`)
    Map(u8),
    /// enum variant selected by index resp. by name; followed by its content
    VarIdx(u32),
    VarName(&'static str),
    /// unit (content of a unit variant)
    Unit,
    End,
}

#[derive(Debug, Clone, Copy, PartialEq, Eq)]
pub struct Err;

impl fmt::Display for Err {
    fn fmt(&self, _f: &mut fmt::Formatter<'_>) -> fmt::Result {
        Ok(())
    }
}

impl std::error::Error for Err {}

impl de::Error for Err {
    fn custom<T: fmt::Display>(_msg: T) -> Self {
        Err
    }
}

impl ser::Error for Err {
    fn custom<T: fmt::Display>(_msg: T) -> Self {
        Err
    }
}

pub const CAP: usize = 24;

pub struct De {
    pub toks: [Tok; CAP],
    pub pos: usize,
}

impl De {
    pub fn new(toks: [Tok; CAP]) -> De {
        De { toks, pos: 0 }
    }
    fn next(&mut self) -> Tok {
        if self.pos >= CAP {
            return Tok::End;
        }
        let t = self.toks[self.pos];
        self.pos += 1;
        t
    }
    fn peek(&self) -> Tok {
        if self.pos >= CAP {
            Tok::End
        } else {
            self.toks[self.pos]
        }
    }
}

struct Elems<'a> {
    de: &'a mut De,
    left: u8,
}

impl<'de, 'a> SeqAccess<'de> for Elems<'a> {
    type Error = Err;
    fn next_element_seed<T: DeserializeSeed<'de>>(&mut self, seed: T) -> Result<Option<T::Value>, Err> {
        if self.left == 0 {
            return Ok(None);
        }
        self.left -= 1;
        seed.deserialize(&mut *self.de).map(Some)
    }
}

impl<'de, 'a> MapAccess<'de> for Elems<'a> {
    type Error = Err;
    fn next_key_seed<K: DeserializeSeed<'de>>(&mut self, seed: K) -> Result<Option<K::Value>, Err> {
        if self.left == 0 {
            return Ok(None);
        }
        self.left -= 1;
        seed.deserialize(&mut *self.de).map(Some)
    }
    fn next_value_seed<V: DeserializeSeed<'de>>(&mut self, seed: V) -> Result<V::Value, Err> {
        seed.deserialize(&mut *self.de)
    }
}

struct Enum<'a> {
    de: &'a mut De,
}

impl<'de, 'a> EnumAccess<'de> for Enum<'a> {
    type Error = Err;
    type Variant = Self;
    fn variant_seed<V: DeserializeSeed<'de>>(self, seed: V) -> Result<(V::Value, Self), Err> {
        let v = seed.deserialize(&mut *self.de)?;
        Ok((v, self))
    }
}

impl<'de, 'a> VariantAccess<'de> for Enum<'a> {
    type Error = Err;
    fn unit_variant(self) -> Result<(), Err> {
        match self.de.next() {
            Tok::Unit => Ok(()),
            _ => Result::Err(Err),
        }
    }
    fn newtype_variant_seed<T: DeserializeSeed<'de>>(self, seed: T) -> Result<T::Value, Err> {
        seed.deserialize(self.de)
    }
    fn tuple_variant<V: Visitor<'de>>(self, _len: usize, visitor: V) -> Result<V::Value, Err> {
        de::Deserializer::deserialize_any(self.de, visitor)
    }
    fn struct_variant<V: Visitor<'de>>(self, _fields: &'static [&'static str], visitor: V) -> Result<V::Value, Err> {
        de::Deserializer::deserialize_any(self.de, visitor)
    }
}

impl<'de, 'a> de::Deserializer<'de> for &'a mut De {
    type Error = Err;

    fn deserialize_any<V: Visitor<'de>>(self, visitor: V) -> Result<V::Value, Err> {
        match self.next() {
            Tok::U(v) => visitor.visit_u64(v),
            Tok::Bool(b) => visitor.visit_bool(b),
            Tok::Str(s) => visitor.visit_str(s),
            Tok::Seq(n) => visitor.visit_seq(Elems { de: self, left: n }),
            Tok::Map(n) => visitor.visit_map(Elems { de: self, left: n }),
            Tok::VarIdx(i) => visitor.visit_u32(i),
            Tok::VarName(s) => visitor.visit_str(s),
            Tok::Unit => visitor.visit_unit(),
            Tok::End => Result::Err(Err),
        }
    }

    fn deserialize_enum<V: Visitor<'de>>(self, _name: &'static str, _variants: &'static [&'static str], visitor: V) -> Result<V::Value, Err> {
        match self.peek() {
            Tok::VarIdx(_) | Tok::VarName(_) => visitor.visit_enum(Enum { de: self }),
            _ => Result::Err(Err),
        }
    }

    fn deserialize_newtype_struct<V: Visitor<'de>>(self, _name: &'static str, visitor: V) -> Result<V::Value, Err> {
        visitor.visit_newtype_struct(self)
    }

    fn deserialize_option<V: Visitor<'de>>(self, visitor: V) -> Result<V::Value, Err> {
        visitor.visit_some(self)
    }

    /// Unknown keys are outside the domain of these checks: skipping a value generically would
    /// recurse through arbitrary nested tokens, so it is an error here.
    fn deserialize_ignored_any<V: Visitor<'de>>(self, _visitor: V) -> Result<V::Value, Err> {
        Result::Err(Err)
    }

    serde::forward_to_deserialize_any! {
        bool i8 i16 i32 i64 i128 u8 u16 u32 u64 u128 f32 f64 char str string bytes byte_buf unit
        unit_struct seq tuple tuple_struct map struct identifier
    }
}

// ---------------------------------------------------------------------------------------------
// Serializer writing tokens
// ---------------------------------------------------------------------------------------------

pub struct Ser {
    pub toks: [Tok; CAP],
    pub n: usize,
}

impl Ser {
    pub fn new() -> Ser {
        Ser {
            toks: [Tok::End; CAP],
            n: 0,
        }
    }
    fn push(&mut self, t: Tok) -> Result<(), Err> {
        if self.n >= CAP {
            return Result::Err(Err);
        }
        self.toks[self.n] = t;
        self.n += 1;
        Ok(())
    }
}

pub struct Compound<'a> {
    ser: &'a mut Ser,
}

macro_rules! compound {
    ($tr:ident, $f:ident $(, $key:ident)?) => {
        impl<'a> ser::$tr for Compound<'a> {
            type Ok = ();
            type Error = Err;
            fn $f<T: ?Sized + Serialize>(&mut self, $($key: &'static str,)? value: &T) -> Result<(), Err> {
                $(self.ser.push(Tok::Str($key))?;)?
                value.serialize(&mut *self.ser)
            }
            fn end(self) -> Result<(), Err> {
                Ok(())
            }
        }
    };
}

compound!(SerializeSeq, serialize_element);
compound!(SerializeTuple, serialize_element);
compound!(SerializeTupleStruct, serialize_field);
compound!(SerializeTupleVariant, serialize_field);
compound!(SerializeStruct, serialize_field, key);
compound!(SerializeStructVariant, serialize_field, key);

impl<'a> ser::SerializeMap for Compound<'a> {
    type Ok = ();
    type Error = Err;
    fn serialize_key<T: ?Sized + Serialize>(&mut self, key: &T) -> Result<(), Err> {
        key.serialize(&mut *self.ser)
    }
    fn serialize_value<T: ?Sized + Serialize>(&mut self, value: &T) -> Result<(), Err> {
        value.serialize(&mut *self.ser)
    }
    fn end(self) -> Result<(), Err> {
        Ok(())
    }
}

impl<'a> ser::Serializer for &'a mut Ser {
    type Ok = ();
    type Error = Err;
    type SerializeSeq = Compound<'a>;
    type SerializeTuple = Compound<'a>;
    type SerializeTupleStruct = Compound<'a>;
    type SerializeTupleVariant = Compound<'a>;
    type SerializeMap = Compound<'a>;
    type SerializeStruct = Compound<'a>;
    type SerializeStructVariant = Compound<'a>;

    fn serialize_bool(self, v: bool) -> Result<(), Err> {
        self.push(Tok::Bool(v))
    }
    fn serialize_i8(self, _v: i8) -> Result<(), Err> {
        Result::Err(Err)
    }
    fn serialize_i16(self, _v: i16) -> Result<(), Err> {
        Result::Err(Err)
    }
    fn serialize_i32(self, _v: i32) -> Result<(), Err> {
        Result::Err(Err)
    }
    fn serialize_i64(self, _v: i64) -> Result<(), Err> {
        Result::Err(Err)
    }
    fn serialize_u8(self, v: u8) -> Result<(), Err> {
        self.push(Tok::U(v as u64))
    }
    fn serialize_u16(self, v: u16) -> Result<(), Err> {
        self.push(Tok::U(v as u64))
    }
    fn serialize_u32(self, v: u32) -> Result<(), Err> {
        self.push(Tok::U(v as u64))
    }
    fn serialize_u64(self, v: u64) -> Result<(), Err> {
        self.push(Tok::U(v))
    }
    fn serialize_f32(self, _v: f32) -> Result<(), Err> {
        Result::Err(Err)
    }
    fn serialize_f64(self, _v: f64) -> Result<(), Err> {
        Result::Err(Err)
    }
    fn serialize_char(self, _v: char) -> Result<(), Err> {
        Result::Err(Err)
    }
    fn serialize_str(self, _v: &str) -> Result<(), Err> {
        Result::Err(Err)
    }
    fn serialize_bytes(self, _v: &[u8]) -> Result<(), Err> {
        Result::Err(Err)
    }
    fn serialize_none(self) -> Result<(), Err> {
        Result::Err(Err)
    }
    fn serialize_some<T: ?Sized + Serialize>(self, v: &T) -> Result<(), Err> {
        v.serialize(self)
    }
    fn serialize_unit(self) -> Result<(), Err> {
        self.push(Tok::Unit)
    }
    fn serialize_unit_struct(self, _name: &'static str) -> Result<(), Err> {
        self.push(Tok::Unit)
    }
    fn serialize_unit_variant(self, _name: &'static str, idx: u32, _variant: &'static str) -> Result<(), Err> {
        self.push(Tok::VarIdx(idx))?;
        self.push(Tok::Unit)
    }
    fn serialize_newtype_struct<T: ?Sized + Serialize>(self, _name: &'static str, v: &T) -> Result<(), Err> {
        v.serialize(self)
    }
    fn serialize_newtype_variant<T: ?Sized + Serialize>(self, _name: &'static str, idx: u32, _variant: &'static str, v: &T) -> Result<(), Err> {
        self.push(Tok::VarIdx(idx))?;
        v.serialize(self)
    }
    fn serialize_seq(self, len: Option<usize>) -> Result<Compound<'a>, Err> {
        self.push(Tok::Seq(len.unwrap_or(0) as u8))?;
        Ok(Compound { ser: self })
    }
    fn serialize_tuple(self, len: usize) -> Result<Compound<'a>, Err> {
        self.push(Tok::Seq(len as u8))?;
        Ok(Compound { ser: self })
    }
    fn serialize_tuple_struct(self, _name: &'static str, len: usize) -> Result<Compound<'a>, Err> {
        self.push(Tok::Seq(len as u8))?;
        Ok(Compound { ser: self })
    }
    fn serialize_tuple_variant(self, _name: &'static str, idx: u32, _variant: &'static str, len: usize) -> Result<Compound<'a>, Err> {
        self.push(Tok::VarIdx(idx))?;
        self.push(Tok::Seq(len as u8))?;
        Ok(Compound { ser: self })
    }
    fn serialize_map(self, len: Option<usize>) -> Result<Compound<'a>, Err> {
        self.push(Tok::Map(len.unwrap_or(0) as u8))?;
        Ok(Compound { ser: self })
    }
    fn serialize_struct(self, _name: &'static str, len: usize) -> Result<Compound<'a>, Err> {
        self.push(Tok::Map(len as u8))?;
        Ok(Compound { ser: self })
    }
    fn serialize_struct_variant(self, _name: &'static str, idx: u32, _variant: &'static str, len: usize) -> Result<Compound<'a>, Err> {
        self.push(Tok::VarIdx(idx))?;
        self.push(Tok::Map(len as u8))?;
        Ok(Compound { ser: self })
    }
    fn collect_str<T: ?Sized + fmt::Display>(self, _value: &T) -> Result<(), Err> {
        Result::Err(Err)
    }
}

fn toks(list: &[Tok]) -> [Tok; CAP] {
    let mut t = [Tok::End; CAP];
    let mut i = 0;
    while i < list.len() && i < CAP {
        t[i] = list[i];
        i += 1;
    }
    t
}

fn de<'de, T: Deserialize<'de>>(list: &[Tok]) -> Result<T, Err> {
    let mut d = De::new(toks(list));
    T::deserialize(&mut d)
}

// ---------------------------------------------------------------------------------------------
// Harnesses
// ---------------------------------------------------------------------------------------------

/// The six restricted integer types from any u64 leaf: accepted iff in range, value preserved.
pub fn integers<N: Nd>(nd: &mut N) {
    let v = nd.u64();
    macro_rules! one {
        ($t:ty, $max:expr) => {{
            let r: Result<$t, Err> = de(&[Tok::U(v)]);
            match r {
                Ok(x) => {
                    check!((x.get() as u64) <= $max, "C19 C04 deserialized restricted integer is in range");
                    check!(x.get() as u64 == v, "C19 deserialized restricted integer keeps the value");
                }
                Result::Err(_) => {
                    check!(v > $max, "C19 the natural representation of every valid integer deserializes");
                }
            }
        }};
    }
    one!(U4, 15);
    one!(U7, 127);
    one!(U14, 16383);
    one!(Channel, 15);
    one!(KeyNumber, 127);
    one!(ControllerNumber, 127);
    witness!(nd, v == 127, "127");
    witness!(nd, v == 16384, "16384");
    witness!(nd, v > 65535, "beyond u16");
}

/// RawShortMessage from any (status, data1, data2) leaves, as a sequence.
pub fn raw<N: Nd>(nd: &mut N) {
    let s = nd.u16() as u64;
    let a = nd.u16() as u64;
    let b = nd.u16() as u64;
    let r: Result<RawShortMessage, Err> = de(&[Tok::Seq(3), Tok::U(s), Tok::U(a), Tok::U(b)]);
    if let Ok(m) = r {
        check!(m.status_byte() >= 0x80, "C19 a deserialized short message has a valid status byte");
        check!(m.data_byte_1().get() <= 127 && m.data_byte_2().get() <= 127, "C19 C04 deserialized data bytes are in range");
        check!(m.status_byte() as u64 == s && m.data_byte_1().get() as u64 == a && m.data_byte_2().get() as u64 == b, "C19 deserialized bytes are the given ones");
        // the panicking accessor must be safe to call
        let _ = m.r#type();
        let _ = m.to_structured();
        witness!(nd, true, "accepted");
    } else {
        check!(s < 0x80 || s > 255 || a > 127 || b > 127, "C19 the natural representation of every valid short message deserializes");
        witness!(nd, s >= 0x80 && s <= 255, "rejected for a data byte");
    }
}

/// ControlChange14BitMessage from any leaves, as a sequence and as a map.
pub fn cc14<N: Nd>(nd: &mut N, as_map: bool) {
    let c = nd.u16() as u64;
    let n = nd.u16() as u64;
    let v = nd.u16() as u64;
    let r: Result<ControlChange14BitMessage, Err> = if as_map {
        de(&[Tok::Map(3), Tok::Str("channel"), Tok::U(c), Tok::Str("msb_controller_number"), Tok::U(n), Tok::Str("value"), Tok::U(v)])
    } else {
        de(&[Tok::Seq(3), Tok::U(c), Tok::U(n), Tok::U(v)])
    };
    if let Ok(m) = r {
        check!(m.channel().get() <= 15 && m.msb_controller_number().get() <= 127 && m.value().get() <= 16383, "C19 C04 deserialized fields are in range");
        check!(m.msb_controller_number().get() <= 31, "C19 a deserialized 14-bit Control Change message has an MSB controller number of 0-31");
        check!(m == ControlChange14BitMessage::new(chv(c as u8), cnv(n as u8), u14v(v as u16)), "C19 the deserialized message could have been built by the checked constructor");
        let _ = m.lsb_controller_number();
        let _: [RawShortMessage; 2] = m.to_short_messages();
        witness!(nd, true, "accepted");
    } else {
        check!(c > 15 || n > 31 || v > 16383, "C19 the natural representation of every valid 14-bit Control Change message deserializes");
        witness!(nd, c <= 15 && n > 31 && n <= 127 && v <= 16383, "rejected for the controller number only");
    }
}

fn data_type_tok(i: u32) -> Tok {
    Tok::VarIdx(i)
}

/// ParameterNumberMessage from any leaves, as a sequence and as a map.
pub fn pnm<N: Nd>(nd: &mut N, as_map: bool, by_name: bool) {
    let c = nd.u16() as u64;
    let n = nd.u16() as u64;
    let v = nd.u16() as u64;
    let reg = nd.bool();
    let is14 = nd.bool();
    let dt = nd.u8_le(3) as u32;
    let dt_tok = if by_name {
        match dt {
            0 => Tok::VarName("DataEntry"),
            1 => Tok::VarName("DataIncrement"),
            2 => Tok::VarName("DataDecrement"),
            _ => Tok::VarName("Bogus"),
        }
    } else {
        data_type_tok(dt)
    };
    let r: Result<ParameterNumberMessage, Err> = if as_map {
        de(&[
            Tok::Map(6),
            Tok::Str("channel"),
            Tok::U(c),
            Tok::Str("number"),
            Tok::U(n),
            Tok::Str("value"),
            Tok::U(v),
            Tok::Str("is_registered"),
            Tok::Bool(reg),
            Tok::Str("is_14_bit"),
            Tok::Bool(is14),
            Tok::Str("data_type"),
            dt_tok,
            Tok::Unit,
        ])
    } else {
        de(&[Tok::Seq(6), Tok::U(c), Tok::U(n), Tok::U(v), Tok::Bool(reg), Tok::Bool(is14), dt_tok, Tok::Unit])
    };
    let consistent = c <= 15 && n <= 16383 && v <= 16383 && dt <= 2 && (if is14 { dt == 0 } else { v <= 127 });
    if let Ok(m) = r {
        check!(m.channel().get() <= 15 && m.number().get() <= 16383 && m.value().get() <= 16383, "C19 C04 deserialized fields are in range");
        check!(!m.is_14_bit() || m.data_type() == DataType::DataEntry, "C19 a deserialized 14-bit (N)RPN message is a data entry");
        check!(m.is_14_bit() || m.value().get() <= 127, "C19 a deserialized 7-bit (N)RPN message has a value of at most 127");
        check!(consistent, "C19 only consistent (N)RPN messages deserialize");
        let kind = if is14 { 1 } else { dt as u8 + if dt == 0 { 0 } else { 1 } };
        check!(m == crate::pnm::build(c as u8, n as u16, v as u16, reg, kind), "C19 the deserialized message could have been built by a public constructor");
        let e: [Option<RawShortMessage>; 4] = m.to_short_messages(DataEntryByteOrder::MsbFirst);
        check!(e[2].map_or(false, |x| x.data_byte_2().get() <= 127), "C19 C04 the encoding of a deserialized message stays in range");
        witness!(nd, is14, "accepted 14-bit");
        witness!(nd, !is14 && dt == 2, "accepted decrement");
    } else {
        check!(!consistent, "C19 the natural representation of every valid (N)RPN message deserializes");
        witness!(nd, c <= 15 && n <= 16383 && v <= 16383 && dt <= 2, "rejected for inconsistency only");
    }
}

/// Round trip: the serialized form of every valid value deserializes to an equal value.
pub fn roundtrip<N: Nd>(nd: &mut N, which: u8, variant: u8) {
    macro_rules! rt {
        ($t:ty, $v:expr) => {{
            let v: $t = $v;
            let mut s = Ser::new();
            let ok = v.serialize(&mut s).is_ok();
            check!(ok, "C19 every valid value serializes");
            let mut d = De::new(s.toks);
            let back = <$t>::deserialize(&mut d);
            check!(back == Ok(v), "C19 the natural representation of every valid value deserializes to an equal value");
        }};
    }
    match which {
        0 => {
            rt!(U4, any_u4(nd));
            rt!(U7, any_u7(nd));
            rt!(U14, any_u14(nd));
            rt!(Channel, any_ch(nd));
            rt!(KeyNumber, any_kn(nd));
            rt!(ControllerNumber, any_cn(nd));
        }
        1 => rt!(RawShortMessage, raw_of(any_valid_triple(nd))),
        2 => {
            let c = nd.u8_le(15);
            let n = nd.u8_le(31);
            let v = nd.u16_le(16383);
            rt!(ControlChange14BitMessage, ControlChange14BitMessage::new(chv(c), cnv(n), u14v(v)))
        }
        3 => {
            let c = nd.u8_le(15);
            let n = nd.u16_le(16383);
            let kind = nd.u8_le(3);
            let v = if kind == 1 { nd.u16_le(16383) } else { nd.u8_le(127) as u16 };
            let reg = nd.bool();
            rt!(ParameterNumberMessage, crate::pnm::build(c, n, v, reg, kind))
        }
        4 => {
            // kinds 0..=6: nibble symbolic; the 'last' frame (variant 7 + n): its 8 values one by
            // one (a symbolic TimeCodeType would make the token positions symbolic)
            if variant < 7 {
                let nib = nd.u8_le(15);
                rt!(TimeCodeQuarterFrame, quarter_frame_of(variant, nib))
            } else {
                rt!(TimeCodeQuarterFrame, quarter_frame_of(7, variant - 7))
            }
        }
        5 => {
            let i = nd.u8_le(22);
            rt!(ShortMessageType, type_of_index(i))
        }
        _ => {
            if variant >= 100 {
                rt!(StructuredShortMessage, StructuredShortMessage::TimeCodeQuarterFrame(quarter_frame_of(7, variant - 100)))
            } else if variant == 8 {
                // the quarter-frame kinds have different token shapes: one kind per path
                let kind = nd.u8_le(6);
                let nib = nd.u8_le(15);
                match kind {
                    0 => rt!(StructuredShortMessage, StructuredShortMessage::TimeCodeQuarterFrame(quarter_frame_of(0, nib))),
                    1 => rt!(StructuredShortMessage, StructuredShortMessage::TimeCodeQuarterFrame(quarter_frame_of(1, nib))),
                    2 => rt!(StructuredShortMessage, StructuredShortMessage::TimeCodeQuarterFrame(quarter_frame_of(2, nib))),
                    3 => rt!(StructuredShortMessage, StructuredShortMessage::TimeCodeQuarterFrame(quarter_frame_of(3, nib))),
                    4 => rt!(StructuredShortMessage, StructuredShortMessage::TimeCodeQuarterFrame(quarter_frame_of(4, nib))),
                    5 => rt!(StructuredShortMessage, StructuredShortMessage::TimeCodeQuarterFrame(quarter_frame_of(5, nib))),
                    _ => rt!(StructuredShortMessage, StructuredShortMessage::TimeCodeQuarterFrame(quarter_frame_of(6, nib))),
                }
            } else {
                rt!(StructuredShortMessage, structured_of_variant(nd, variant).0)
            }
        }
    }
    witness!(nd, true, "round trip");
}

/// ShortMessageType (serde_repr) and TimeCodeType / DataType (derived) from any leaf.
pub fn enums<N: Nd>(nd: &mut N) {
    let v = nd.u64();
    let r: Result<ShortMessageType, Err> = de(&[Tok::U(v)]);
    match r {
        Ok(t) => check!(v <= 255 && crate::oracle::is_type_byte(v as u8) && type_byte_of(t) as u64 == v, "C19 a deserialized message type is one of the 23 types, by its byte"),
        Result::Err(_) => check!(v > 255 || !crate::oracle::is_type_byte(v as u8), "C19 every valid message type byte deserializes"),
    }
    let i = nd.u32();
    let r: Result<TimeCodeType, Err> = de(&[Tok::VarIdx(i), Tok::Unit]);
    check!(r.is_ok() == (i <= 3), "C19 TimeCodeType deserializes exactly for its four variants");
    let r: Result<DataType, Err> = de(&[Tok::VarIdx(i), Tok::Unit]);
    check!(r.is_ok() == (i <= 2), "C19 DataType deserializes exactly for its three variants");
    witness!(nd, v == 0xF8, "timing clock");
}

/// StructuredShortMessage and TimeCodeQuarterFrame with out-of-range field leaves are refused.
pub fn structured_fields<N: Nd>(nd: &mut N) {
    let c = nd.u16() as u64;
    let k = nd.u16() as u64;
    let v = nd.u16() as u64;
    // variant 1 = NoteOn { channel, key_number, velocity }
    let r: Result<StructuredShortMessage, Err> = de(&[
        Tok::VarIdx(1),
        Tok::Map(3),
        Tok::Str("channel"),
        Tok::U(c),
        Tok::Str("key_number"),
        Tok::U(k),
        Tok::Str("velocity"),
        Tok::U(v),
    ]);
    check!(r.is_ok() == (c <= 15 && k <= 127 && v <= 127), "C19 a structured message deserializes exactly for in-range fields");
    if let Ok(m) = r {
        check!(m == StructuredShortMessage::NoteOn { channel: chv(c as u8), key_number: knv(k as u8), velocity: u7v(v as u8) }, "C19 deserialized structured message has the given fields");
        check!(m.status_byte() >= 0x80, "C19 a deserialized short message has a valid status byte");
    }
    // pitch bend: variant 6 { channel, pitch_bend_value }
    let r: Result<StructuredShortMessage, Err> = de(&[Tok::VarIdx(6), Tok::Seq(2), Tok::U(c), Tok::U(v)]);
    check!(r.is_ok() == (c <= 15 && v <= 16383), "C19 a structured pitch bend deserializes exactly for in-range fields");
    // quarter frame nibble
    let r: Result<TimeCodeQuarterFrame, Err> = de(&[Tok::VarIdx(2), Tok::U(c)]);
    check!(r.is_ok() == (c <= 15), "C19 a quarter frame nibble deserializes exactly for 0-15");
    witness!(nd, c <= 15 && k <= 127 && v <= 127, "accepted");
}

/// Witness twin: claims that nothing deserializes.
pub fn twin<N: Nd>(nd: &mut N) {
    let v = nd.u64();
    let r: Result<U7, Err> = de(&[Tok::U(v)]);
    check!(r.is_err(), "twin: deliberately false");
}
