//! Native replayer: runs one harness body with the concrete values of a Kani counterexample
//! against the real (natively compiled) crate and reports what happened.
//!
//!     hmreplay <harness> '<json list of byte lists>'
//!
//! Prints `REPLAY {"outcome": "panic"|"returned"|"assume_failed"|"out_of_values"|"unknown_harness", ...}`.
use hmverif::nd::{AssumeFailed, OutOfValues, ReplayNd};
use std::alloc::{GlobalAlloc, Layout, System};
use std::sync::atomic::{AtomicBool, AtomicUsize, Ordering};
use std::sync::Mutex;

struct Counting;
static ARMED: AtomicBool = AtomicBool::new(false);
static ALLOCS: AtomicUsize = AtomicUsize::new(0);

unsafe impl GlobalAlloc for Counting {
    unsafe fn alloc(&self, l: Layout) -> *mut u8 {
        if ARMED.load(Ordering::SeqCst) {
            ALLOCS.fetch_add(1, Ordering::SeqCst);
        }
        System.alloc(l)
    }
    unsafe fn dealloc(&self, p: *mut u8, l: Layout) {
        System.dealloc(p, l)
    }
    unsafe fn alloc_zeroed(&self, l: Layout) -> *mut u8 {
        if ARMED.load(Ordering::SeqCst) {
            ALLOCS.fetch_add(1, Ordering::SeqCst);
        }
        System.alloc_zeroed(l)
    }
    unsafe fn realloc(&self, p: *mut u8, l: Layout, n: usize) -> *mut u8 {
        if ARMED.load(Ordering::SeqCst) {
            ALLOCS.fetch_add(1, Ordering::SeqCst);
        }
        System.realloc(p, l, n)
    }
}

#[global_allocator]
static A: Counting = Counting;

static PANIC_MSG: Mutex<Option<(String, usize)>> = Mutex::new(None);

fn parse_values(s: &str) -> Vec<Vec<u8>> {
    // minimal parser for [[1,2],[3]]
    let mut out = Vec::new();
    let mut cur: Option<Vec<u8>> = None;
    let mut num: Option<u32> = None;
    let mut depth = 0;
    for c in s.chars() {
        match c {
            '[' => {
                depth += 1;
                if depth == 2 {
                    cur = Some(Vec::new());
                }
            }
            ']' => {
                if depth == 2 {
                    if let Some(n) = num.take() {
                        cur.as_mut().unwrap().push(n as u8);
                    }
                    out.push(cur.take().unwrap());
                }
                depth -= 1;
            }
            ',' => {
                if depth == 2 {
                    if let Some(n) = num.take() {
                        cur.as_mut().unwrap().push(n as u8);
                    }
                }
            }
            d if d.is_ascii_digit() => {
                num = Some(num.unwrap_or(0) * 10 + d.to_digit(10).unwrap());
            }
            _ => {}
        }
    }
    out
}

fn esc(s: &str) -> String {
    let mut o = String::new();
    for c in s.chars() {
        match c {
            '"' => o.push_str("\\\""),
            '\\' => o.push_str("\\\\"),
            '\n' => o.push_str("\\n"),
            c if (c as u32) < 0x20 => o.push(' '),
            c => o.push(c),
        }
    }
    o
}

fn main() {
    let args: Vec<String> = std::env::args().collect();
    if args.len() < 3 {
        eprintln!("usage: hmreplay <harness> <values-json>");
        std::process::exit(2);
    }
    let name = &args[1];
    let values = parse_values(&args[2]);
    let f = match hmverif::generated::native(name) {
        Some(f) => f,
        None => {
            println!("REPLAY {{\"outcome\": \"unknown_harness\"}}");
            return;
        }
    };
    std::panic::set_hook(Box::new(|info| {
        let at_panic = ALLOCS.load(Ordering::SeqCst);
        ARMED.store(false, Ordering::SeqCst);
        let msg = if let Some(s) = info.payload().downcast_ref::<&str>() {
            s.to_string()
        } else if let Some(s) = info.payload().downcast_ref::<String>() {
            s.clone()
        } else {
            String::new()
        };
        let loc = info
            .location()
            .map(|l| format!("{}:{}", l.file(), l.line()))
            .unwrap_or_default();
        *PANIC_MSG.lock().unwrap() = Some((format!("{} @ {}", msg, loc), at_panic));
    }));
    let mut nd = ReplayNd::new(values);
    nd.witnesses.reserve(256);
    ALLOCS.store(0, Ordering::SeqCst);
    let res = std::panic::catch_unwind(std::panic::AssertUnwindSafe(|| {
        ARMED.store(true, Ordering::SeqCst);
        f(&mut nd);
        ARMED.store(false, Ordering::SeqCst);
    }));
    ARMED.store(false, Ordering::SeqCst);
    let witnesses: Vec<String> = nd.witnesses.iter().map(|w| format!("\"{}\"", esc(w))).collect();
    // optional attribution of a conformance failure to a property (see hmverif::attrib)
    let mut attribution = String::new();
    if args.len() >= 6 && args[3] == "--attribute" {
        let depth: usize = args[5].parse().unwrap_or(2);
        attribution = match &nd.ctx {
            None => ", \"attribution\": {\"captured\": false, \"found\": false}".to_string(),
            Some(ctx) => match hmverif::attrib::attribute(&args[4], ctx, depth) {
                Some(f) => format!(
                    ", \"attribution\": {{\"captured\": true, \"found\": true, \"clause\": \"{}\", \"trace\": [{}]}}",
                    esc(&f.clause),
                    f.trace.iter().map(|t| format!("\"{}\"", esc(t))).collect::<Vec<_>>().join(", ")
                ),
                None => ", \"attribution\": {\"captured\": true, \"found\": false}".to_string(),
            },
        };
    }
    match res {
        Ok(()) => {
            println!(
                "REPLAY {{\"outcome\": \"returned\", \"allocs\": {}, \"witnesses\": [{}], \"consumed\": {}}}",
                ALLOCS.load(Ordering::SeqCst),
                witnesses.join(", "),
                nd.pos
            );
        }
        Err(e) => {
            if e.downcast_ref::<AssumeFailed>().is_some() {
                println!("REPLAY {{\"outcome\": \"assume_failed\", \"consumed\": {}}}", nd.pos);
            } else if e.downcast_ref::<OutOfValues>().is_some() {
                println!("REPLAY {{\"outcome\": \"out_of_values\", \"consumed\": {}}}", nd.pos);
            } else {
                let (msg, allocs) = PANIC_MSG.lock().unwrap().clone().unwrap_or_default();
                println!(
                    "REPLAY {{\"outcome\": \"panic\", \"message\": \"{}\", \"allocs\": {}, \"witnesses\": [{}], \"consumed\": {}{}}}",
                    esc(&msg),
                    allocs,
                    witnesses.join(", "),
                    nd.pos,
                    attribution
                );
            }
        }
    }
}
